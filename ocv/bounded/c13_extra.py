"""C13 bounded monitor, part 2: (a) OrderedDict nodes whose own order differs from the storage order of the underlying dict
(move_to_end(last=False/True), popitem + reinsert) are flattened in their OWN order by every entry point, inside and outside
an insertion-ordered block, and round-trip; (b) the with-block restores the mode of every namespace when it is left by an
exception that is not an Exception (GeneratorExit by closing a suspended generator, KeyboardInterrupt, SystemExit), also
when nested.  Exhaustive over the listed grid."""
from ocv.bounded._extra import run_core

CORE = r'''
import collections, itertools
import optree
import optree.registry as R
G = next(v for k, v in R.__dict__.items() if k.endswith('GLOBAL_NAMESPACE'))
NSS = [G, 'c13x', 'c13y']

def od_variants():
    def base():
        return collections.OrderedDict([('b', 1), ('a', 2), ('c', 3)])
    def v0(): return base()
    def v1():
        d = base(); d.move_to_end('b'); return d
    def v2():
        d = base(); d.move_to_end('c', last=False); return d
    def v3():
        d = base(); k, v = d.popitem(last=False); d[k] = v; d.move_to_end('a', last=False); return d
    def v4():
        d = base(); d.move_to_end('a'); d.move_to_end('b'); return d
    return [v0, v1, v2, v3, v4]

def modes(ns):
    return {('g' if n is G else n): R._C.is_dict_insertion_ordered('' if n is G else n, inherit_global_namespace=False) for n in NSS}

def cases(tier):
    for vi in range(5):
        for where in (None, 'g', 'c13x'):
            for ns_arg in ('', 'c13x'):
                for wrap in (False, True):
                    yield ('od', vi, where, ns_arg, wrap)
    for exc in ('GeneratorExit', 'KeyboardInterrupt', 'SystemExit', 'ValueError', 'none'):
        for outer in (None, 'g', 'c13x'):
            for inner in ('g', 'c13x', 'c13y'):
                for mode in (True, False):
                    yield ('exit', exc, outer, inner, mode)

def check(spec):
    bad = []
    if spec[0] == 'od':
        _, vi, where, ns_arg, wrap = spec
        od = od_variants()[vi]()
        tree = {'z': [od], 'y': 0} if wrap else od
        own = list(od.values())
        def go():
            kw = dict(namespace=ns_arg)
            res = {
                'tree_flatten': optree.tree_flatten(tree, **kw)[0],
                'tree_leaves': optree.tree_leaves(tree, **kw),
                'tree_iter': list(optree.tree_iter(tree, **kw)),
                'tree_flatten_with_path': optree.tree_flatten_with_path(tree, **kw)[1],
                'tree_flatten_with_accessor': optree.tree_flatten_with_accessor(tree, **kw)[1],
                'tree_map': optree.tree_leaves(optree.tree_map(lambda x: x, tree, **kw), **kw),
            }
            for nm, leaves in res.items():
                sub = [x for x in leaves if x in (1, 2, 3)]
                if sub != own:
                    bad.append(('C13.ordereddict_unaffected', f'{nm} lists the OrderedDict values as {sub!r}; its own order is {own!r} ({list(od)!r}); mode switched on at {where!r}, namespace={ns_arg!r}'))
            leaves, ts = optree.tree_flatten(tree, **kw)
            back = optree.tree_unflatten(ts, leaves)
            od2 = back['z'][0] if wrap else back
            if list(od2.items()) != list(od.items()) or type(od2) is not collections.OrderedDict:
                bad.append(('C13.ordereddict_roundtrip', f'round trip gives {od2!r} for {od!r}; mode switched on at {where!r}, namespace={ns_arg!r}'))
        if where is None:
            go()
        else:
            with optree.dict_insertion_ordered(True, namespace=(G if where == 'g' else where)):
                go()
        return bad
    _, exc, outer, inner, mode = spec
    before = modes(None)
    def body():
        with optree.dict_insertion_ordered(mode, namespace=(G if inner == 'g' else inner)):
            if exc == 'GeneratorExit':
                yield 1
            elif exc == 'none':
                pass
            else:
                raise {'KeyboardInterrupt': KeyboardInterrupt, 'SystemExit': SystemExit, 'ValueError': ValueError}[exc]()
        yield 2
    def run_inner():
        g = body()
        try:
            next(g)
            g.close()
        except BaseException as e:   # noqa: BLE001
            if type(e).__name__ != exc:
                raise
    if outer is None:
        run_inner()
        after = modes(None)
        if after != before:
            bad.append(('C13.block_restores_mode_on_every_exit', f'block over {inner!r} (mode={mode}) left by {exc}: modes before {before!r}, after {after!r}'))
    else:
        with optree.dict_insertion_ordered(not mode, namespace=(G if outer == 'g' else outer)):
            mid = modes(None)
            run_inner()
            after_inner = modes(None)
            if after_inner != mid:
                bad.append(('C13.block_restores_mode_on_every_exit', f'nested block over {inner!r} (mode={mode}) inside a block over {outer!r}, left by {exc}: modes before {mid!r}, after {after_inner!r}'))
        after = modes(None)
        if after != before:
            # put things back so that the following cases start clean, then report
            for n in NSS:
                R._C.set_dict_insertion_ordered(before['g' if n is G else n], '' if n is G else n)
            bad.append(('C13.block_restores_mode_on_every_exit', f'after leaving both blocks ({outer!r} around {inner!r}, inner left by {exc}): modes {after!r}, expected {before!r}'))
    if modes(None) != before:
        for n in NSS:
            R._C.set_dict_insertion_ordered(before['g' if n is G else n], '' if n is G else n)
    return bad
'''


def run(tier, seed):
    return run_core('c13_extra', CORE, tier,
                    scope='5 OrderedDict histories (move_to_end / popitem) x 3 mode placements x 2 namespace arguments x bare / nested, all '
                          'entry points; 5 exit kinds (GeneratorExit, KeyboardInterrupt, SystemExit, ValueError, normal) x 3 outer x 3 inner x 2 modes',
                    rule='one evaluation = one tree through all entry points, or one (possibly nested) with-block left in the given way')
