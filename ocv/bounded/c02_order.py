"""C02 bounded monitor: leaf order and node/leaf classification follow the documented rules.

Oracle: the independent reference flattener `_util_a.ref_walk` (written from README.md: built-in node
types, registry notes, "`None` is Non-leaf Node", "Key Ordering for Dictionaries") is compared with the
observed `tree_leaves` / `tree_flatten` / `tree_structure` of the freshly built optree, plus the three
relational laws of the statement (equal dicts, none_is_leaf, re-flattening predicate leaves) and
`tree_replace_nones`.
"""
from __future__ import annotations

import collections
import dataclasses
import itertools
from collections import OrderedDict, defaultdict

import optree
from ocv.bounded import _util_a as U
from ocv.bounded import scope as S
from ocv.bounded._util_a import ids_equal, kw, mode, ref_expand, ref_sorted_keys, ref_walk  # noqa: F401

PROP = 'C02'
POOLS = dict(S.KEY_POOLS, partly5=[3, 1, 2, S.UKey(0), S.UKey(1)])


# ---- check functions (pasted into replay scripts) ------------------------------------------------

def order_clause(x, o):
    """Name of the ordering/classification clause that governs node `x` (for stable finding keys)."""
    e = ref_expand(x, o)
    pred = o['is_leaf']
    if pred is not None and pred(x):
        return 'predicate_before_lookup'
    if x is None:
        return 'none_classification'
    if e is None:
        if isinstance(x, (list, tuple, dict, collections.deque)):
            return 'subclass_is_leaf'
        return 'namespace_lookup' if hasattr(x, 'children') or dataclasses.is_dataclass(x) else 'node_leaf_classification'
    kind = e[0]
    if kind in ('dict', 'defaultdict'):
        if o.get('ins'):
            return 'insertion_mode_order'
        keys = list(x)
        try:
            sorted(keys)
            return 'sorted_keys_order'
        except TypeError:
            try:
                sorted(keys, key=lambda k: (f'{k.__class__.__module__}.{k.__class__.__qualname__}', k))
                return 'mixed_keys_typename_order'
            except TypeError:
                return 'unsortable_keys_insertion_order'
    if kind == 'OrderedDict':
        return 'ordereddict_insertion_order'
    if kind == 'custom':
        return 'custom_children_order'
    return 'sequence_position_order'


def culprit(x, o):
    """Deepest node (by the reference expansion) whose observed leaves differ from the reference."""
    e = ref_expand(x, o)
    if e is not None:
        for _, child in e[1]:
            if not ids_equal(optree.tree_leaves(child, **kw(o)), ref_walk(child, o)[0]):
                return culprit(child, o)
    return x


def ref_shape(x, o):
    e = ref_expand(x, o)
    return '*' if e is None else tuple(ref_shape(c, o) for _, c in e[1])


def spec_shape(spec):
    return '*' if spec.is_leaf() else tuple(spec_shape(c) for c in spec.children())


def chk_order(tree, o):
    """Leaves of tree_leaves / tree_flatten are the reference leaves (identity, order); treespec shape."""
    out = []
    with mode(o):
        got = optree.tree_leaves(tree, **kw(o))
        got2, spec = optree.tree_flatten(tree, **kw(o))
        spec2 = optree.tree_structure(tree, **kw(o))
        exp, _, nodes = ref_walk(tree, o)
        if not ids_equal(got, exp) or not ids_equal(got2, exp):
            bad = culprit(tree, o)
            out.append((f'C02.{order_clause(bad, o)}',
                        f'leaves {got!r}, reference {exp!r} (first divergent node: {bad!r})'))
        elif (spec.num_leaves, spec.num_nodes) != (len(exp), len(exp) + len(nodes)) or spec_shape(spec) != ref_shape(tree, o) \
                or spec_shape(spec2) != ref_shape(tree, o):     # (a wrong leaf order implies a wrong child order)
            out.append(('C02.treespec_shape', f'treespec {spec!r}: shape {spec_shape(spec)!r} num_leaves={spec.num_leaves} '
                        f'num_nodes={spec.num_nodes}; reference shape {ref_shape(tree, o)!r}, {len(exp)} leaves, '
                        f'{len(nodes)} internal nodes'))
    return out


def chk_nil_law(tree, o):
    """Without a predicate: leaves(none_is_leaf=True) minus the None objects == leaves(none_is_leaf=False)."""
    with mode(o):
        lt = optree.tree_leaves(tree, none_is_leaf=True, namespace=o['namespace'])
        lf = optree.tree_leaves(tree, none_is_leaf=False, namespace=o['namespace'])
    if not ids_equal([x for x in lt if x is not None], lf):
        return [('C02.none_is_leaf_law', f'none_is_leaf=True leaves {lt!r}, none_is_leaf=False leaves {lf!r}')]
    return []


def chk_pred_reflatten(tree, o):
    """Flattening the leaves obtained under the predicate yields the leaves obtained without it."""
    k = kw(o)
    with mode(o):
        lp = optree.tree_leaves(tree, **k)
        k['is_leaf'] = None
        again = [y for x in lp for y in optree.tree_leaves(x, **k)]
        plain = optree.tree_leaves(tree, **k)
    if not ids_equal(again, plain):
        return [('C02.predicate_leaves_reflatten', f'predicate leaves {lp!r} re-flatten to {again!r}, plain leaves {plain!r}')]
    return []


def chk_replace_nones(tree, o):
    """tree_replace_nones puts the sentinel exactly where None sits as a node (reference walk of the result)."""
    sent = S.L(-1)
    res = optree.tree_replace_nones(sent, tree, namespace=o['namespace'])
    o_leaf = dict(o, none_is_leaf=True, is_leaf=None, ins=False)
    exp = [sent if x is None else x for x in ref_walk(tree, o_leaf)[0]]
    got = ref_walk(res, o_leaf)[0]
    if not ids_equal(got, exp) or ref_shape(res, o_leaf) != ref_shape(tree, o_leaf):
        return [('C02.replace_nones', f'result {res!r}: leaves {got!r}, expected {exp!r}')]
    return []


def chk_equal_dicts(tree, o):
    """tree = (a, b) with a == b (same key set, other insertion order): equal leaves and equal treespecs."""
    a, b = tree
    with mode(o):
        la, sa = optree.tree_flatten(a, **kw(o))
        lb, sb = optree.tree_flatten(b, **kw(o))
    if [x.n for x in la] != [x.n for x in lb] or sa != sb:
        return [('C02.equal_dicts_equal_flatten', f'{a!r} -> {la!r} {sa!r}; {b!r} -> {lb!r} {sb!r}')]
    return []


def moved(od, *moves):
    """OrderedDict after a sequence of move_to_end(key, last) calls (its own order != underlying dict storage order)."""
    for key, last in moves:
        od.move_to_end(key, last=last)
    return od


FN_SRC = None


def fn_src():
    global FN_SRC
    if FN_SRC is None:
        FN_SRC = U.ref_src() + U.SRC(order_clause, culprit, ref_shape, spec_shape, chk_order, chk_nil_law,
                                     chk_pred_reflatten, chk_replace_nones, chk_equal_dicts, moved)
    return FN_SRC


# ---- scope ---------------------------------------------------------------------------------------

def sortable(keys):
    try:
        sorted(keys)
        return True
    except TypeError:
        try:
            sorted(keys, key=lambda k: (f'{k.__class__.__module__}.{k.__class__.__qualname__}', k))
            return True
        except TypeError:
            return False


def mk(kind, keys, values):
    if kind == 'dict':
        return {k: values[k] for k in keys}
    if kind == 'odict':
        return OrderedDict((k, values[k]) for k in keys)
    d = defaultdict(list)
    for k in keys:
        d[k] = values[k]
    return d


def permutation_scope(tier):
    """(pool name, kind, ordered key selection): every permutation of <= 3 keys of every pool (+ full pools)."""
    for pname, pool in POOLS.items():
        sizes = list(range(1, min(3, len(pool)) + 1)) + ([len(pool)] if tier == 'thorough' or len(pool) > 4 else [])
        if tier == 'thorough' and len(pool) > 4:
            sizes.append(4)
        for r in sorted(set(sizes)):
            for perm in itertools.permutations(pool, r):
                for kind in ('dict', 'ddict', 'odict'):
                    yield pname, kind, perm


def run(tier: str, seed: int):
    col = U.Collector('C02 bounded: reference flattener (README rules) vs tree_leaves/tree_flatten/tree_structure')
    src = fn_src()
    # -- part 1: tree universe x option grid x dict-order mode
    if tier == 'quick':
        g, ds, txt = U.universe(tier, seed, U.EXT_SUB, quick_nodes=4, quick_limit=12000)
    else:
        g, ds, txt = U.universe(tier, seed, U.EXT_SUB, thorough_nodes=4)
        g5, ds5, txt5 = U.universe(tier, seed, U.EXT, thorough_nodes=5, thorough_sample=None, childless=('leaf', 'none'))
        ds = ds + [d for d in ds5 if S.count_nodes(d) == 5]
        ds += U.random_descrs(seed, U.EXT_SUB, 6, 20000) + U.random_descrs(seed + 1, U.EXT_SUB, 7, 10000)
        txt += '; all 5-node trees (extended kinds, childless in leaf/None); 20000/10000 seeded random 6/7-node trees'
    for i, d in enumerate(ds):
        tree = g.build(d)
        has_dict = bool(U.kinds_in(d) & U.DICT_KINDS) or 'empty_dict' in U.kinds_in(d) or 'partial_kw' in U.kinds_in(d) \
            or 'partial' in U.kinds_in(d)
        nontrivial = S.count_nodes(d) > 1
        tsrc = lambda tree=tree: U.to_src(tree)     # noqa: E731
        for o in U.grid(ins_modes=(False, True) if has_dict else (False,)):
            checks = [chk_order]
            if o['is_leaf'] is None and not o['none_is_leaf']:
                checks.append(chk_nil_law)
                if not o['ins']:
                    checks.append(chk_replace_nones)
            if o['is_leaf'] is not None:
                checks.append(chk_pred_reflatten)
            U.run_checks(col, PROP, checks, src, tree, tsrc, o, f'tree {S.show(d)} [{U.opt_repr(o)}]')
            if nontrivial:
                col.nontrivial((S.show(d), U.opt_repr(o)))
        if i % 4001 == 7:
            col.sample(f'{S.show(d)} -> {optree.tree_structure(tree)!r}')
    # -- part 2: every insertion permutation of small dicts, bare and nested
    nperm = 0
    groups = {}
    for pname, kind, perm in permutation_scope(tier):
        values = {k: (S.L(i) if i != 1 else (S.L(10), S.L(11))) for i, k in enumerate(POOLS[pname])}
        dct = mk(kind, perm, values)
        wrappers = [dct, (S.L(90), dct, S.L(91)), {'z': dct, 'a': [dct]}, S.CustomE([dct, S.L(92)])]
        for w in wrappers:
            for o in U.grid(predicates=False):
                if o['namespace'] == S.NS_OTHER:
                    continue
                U.run_checks(col, PROP, [chk_order], src, w, lambda w=w: U.to_src(w), o,
                             f'{kind} with insertion order {list(perm)!r} [{U.opt_repr(o)}]')
                col.nontrivial((pname, kind, repr(perm), type(w).__name__, U.opt_repr(o)))
        nperm += 1
        if kind != 'odict' and sortable(perm) and len(perm) > 1:
            groups.setdefault((pname, kind, frozenset(map(repr, perm))), []).append(dct)
    # equal dicts (sorted mode, sortable key sets): all insertion orders flatten alike
    for (pname, kind, _), dcts in groups.items():
        for other in dcts[1:]:
            for nil in (False, True):
                o = {'none_is_leaf': nil, 'namespace': '', 'is_leaf': None, 'ins': False}
                pair = (dcts[0], other)
                U.run_checks(col, PROP, [chk_equal_dicts], src, pair, lambda pair=pair: U.to_src(pair), o,
                             f'equal {kind}s {dcts[0]!r} / {other!r}')
                col.nontrivial((pname, kind, repr(list(other)), 'equal', nil))
    # OrderedDicts whose order was changed by move_to_end (order of the OrderedDict itself, not of its dict storage)
    nmoved = 0
    for pname in ('rev_str', 'mixed', 'unorderable'):
        pool = POOLS[pname][:3]
        for r in (2, 3):
            for perm in itertools.permutations(pool, r):
                ops = [(k, last) for k in perm for last in (True, False)]
                for moves in [(m,) for m in ops] + (list(itertools.product(ops, repeat=2)) if tier == 'thorough' or r == 2 else []):
                    before = OrderedDict((k, S.L(i)) for i, k in enumerate(perm))
                    msrc = ', '.join(f'({U.key_src(k)}, {last})' for k, last in moves)
                    bare_src = f'moved({U.to_src(before)}, {msrc})'
                    od = moved(before, *moves)
                    nmoved += 1
                    for w, wsrc in ((od, bare_src), ([S.L(90), od], f'[S.L(90), {bare_src}]')):
                        for o in U.grid(predicates=False):
                            if o['namespace'] == S.NS_OTHER:
                                continue
                            U.run_checks(col, PROP, [chk_order], src, w, wsrc, o,
                                         f'OrderedDict {list(perm)!r} after move_to_end {list(moves)!r} [{U.opt_repr(o)}]')
                            col.nontrivial((pname, 'moved', repr(perm), repr(moves), type(w).__name__, U.opt_repr(o)))
    col.sample(f"partly5 pool {POOLS['partly5']!r}: reference order of {{3,UKey(0),UKey(1)}} inserted as "
               f"[UKey(0),3,UKey(1)] is insertion order; optree gives "
               f"{optree.tree_leaves({S.UKey(0): 0, 3: 1, S.UKey(1): 2})!r}")
    return col.done(
        rule='non-trivial = tree with at least one internal node (or a dict permutation case), counted per distinct '
             '(tree description, options)',
        scope=f'{txt}; kinds {U.EXT_SUB}; x none_is_leaf x namespace in {S.NAMESPACES} x is_leaf in '
              f'[None, is_leaf_list, is_leaf_dictlike] x dict-order mode (trees holding a dict/defaultdict); '
              f'{nperm} (pool, kind, insertion order) permutations of <= 3 keys (+ whole pool) over pools '
              f'{list(POOLS)} x dict/defaultdict/OrderedDict, bare and under tuple/dict/custom parents; '
              f'equal-dict law on all sortable key sets; {nmoved} OrderedDicts reordered by one or two move_to_end calls',
        exhaustive=False,
        notes='equal-dicts law is only checked for key sets that one of the two documented sorts can order '
              '(for unsortable sets the documented result is insertion order, which contradicts the law); '
              'treespec equality there uses ==; hash parity is C06.',
    )
