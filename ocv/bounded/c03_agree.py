"""C03 bounded monitor: all traversal entry points agree with each other.

Oracle (from the statement): tree_flatten, tree_flatten_with_path, tree_flatten_with_accessor, tree_leaves,
tree_iter, tree_structure, tree_paths, tree_accessors give identical leaf objects in identical order and equal
treespecs (==, hash, repr); paths/accessors equal the ones recomputed from the treespec alone; all counts equal
num_leaves; tree_is_leaf / all_leaves laws; reductions equal the Python fold over tree_leaves; exception *type*
parity for malformed custom nodes and over-deep trees (the latter in a child process).
"""
from __future__ import annotations

import functools
import json
import operator

import optree
from ocv.bounded import _util_a as U
from ocv.bounded import scope as S
from ocv.bounded._util_a import ids_equal, kw, mode, ref_expand, ref_sorted_keys, ref_walk  # noqa: F401

PROP = 'C03'

# >>> c03 extras (pasted verbatim into replay scripts of the malformed-node part)
BAD_NS = 'ocv_c03_bad'


class BadBase:
    def __init__(self, *ch):
        self.ch = list(ch)

    def __repr__(self):
        return f'{type(self).__name__}({", ".join(map(repr, self.ch))})'


def _raise(ex):
    raise ex


MALFORMED = {                      # name -> flatten function
    'tuple0': lambda o: (),
    'tuple1': lambda o: (o.ch,),
    'tuple4': lambda o: (o.ch, None, None, None),
    'not_a_tuple': lambda o: 7,
    'children_int': lambda o: (5, None),
    'children_none': lambda o: (None, None),
    'entries_short': lambda o: (o.ch, None, tuple(range(len(o.ch) - 1))),
    'entries_long': lambda o: (o.ch, None, tuple(range(len(o.ch) + 1))),
    'entries_int': lambda o: (o.ch, None, 5),
    'raises_key': lambda o: _raise(KeyError('flatten')),
    # unusual but well-formed results: every entry point must succeed and agree
    'ok_generator_children': lambda o: ((c for c in o.ch), None),
    'ok_list_result': lambda o: [o.ch, None],
    'ok_list_entries': lambda o: (o.ch, None, list(range(len(o.ch)))),
}
BAD = {}
for _name, _fn in MALFORMED.items():
    BAD[_name] = type(f'Bad_{_name}', (BadBase,), {})
    optree.register_pytree_node(BAD[_name], _fn, lambda m, ch, _c=BAD[_name]: _c(*ch), namespace=BAD_NS)
# <<< c03 extras

with open(__file__) as _f:
    _t = _f.read()
BAD_SRC = _t[_t.index('# >>> c03 extras'):_t.index('# <<< c03 extras')]
del _t, _f


# ---- check functions (pasted into replay scripts) ------------------------------------------------

def chk_agree(tree, o):
    out = []
    k = kw(o)
    with mode(o):
        leaves, spec = optree.tree_flatten(tree, **k)
        paths_p, leaves_p, spec_p = optree.tree_flatten_with_path(tree, **k)
        accs_a, leaves_a, spec_a = optree.tree_flatten_with_accessor(tree, **k)
        others = {'tree_flatten_with_path': leaves_p, 'tree_flatten_with_accessor': leaves_a,
                  'tree_leaves': optree.tree_leaves(tree, **k), 'tree_iter': list(optree.tree_iter(tree, **k))}
        specs = {'tree_flatten_with_path': spec_p, 'tree_flatten_with_accessor': spec_a,
                 'tree_structure': optree.tree_structure(tree, **k)}
        paths = {'tree_flatten_with_path': paths_p, 'tree_paths': optree.tree_paths(tree, **k)}
        accs = {'tree_flatten_with_accessor': accs_a, 'tree_accessors': optree.tree_accessors(tree, **k)}
    # recomputed later, from the treespec alone (outside the dict-order mode block)
    paths.update({'PyTreeSpec.paths': spec.paths(), 'treespec_paths': optree.treespec_paths(spec)})
    accs.update({'PyTreeSpec.accessors': spec.accessors(), 'treespec_accessors': optree.treespec_accessors(spec)})
    for name, ls in others.items():
        if not ids_equal(ls, leaves):
            out.append(('C03.leaves_agree', f'{name} leaves {ls!r} != tree_flatten leaves {leaves!r}'))
    for name, s in specs.items():
        if not (s == spec) or s != spec or hash(s) != hash(spec) or repr(s) != repr(spec):
            out.append(('C03.treespec_agree', f'{name} treespec {s!r} (hash {hash(s)}) vs tree_flatten {spec!r} (hash {hash(spec)})'))
    ref_paths = paths['PyTreeSpec.paths']
    for name, ps in paths.items():
        if type(ps) is not list or ps != ref_paths or any(type(p) is not tuple for p in ps):
            out.append(('C03.paths_agree', f'{name} {ps!r} != paths recomputed from the treespec {ref_paths!r}'))
    ref_accs = accs['PyTreeSpec.accessors']
    for name, acs in accs.items():
        if acs != ref_accs or [hash(a) for a in acs] != [hash(a) for a in ref_accs] \
                or any(type(a) is not optree.PyTreeAccessor for a in acs):
            out.append(('C03.accessors_agree', f'{name} {acs!r} != accessors recomputed from the treespec {ref_accs!r}'))
    if [a.path for a in ref_accs] != ref_paths:
        out.append(('C03.accessors_agree', f'accessor paths {[a.path for a in ref_accs]!r} != paths {ref_paths!r}'))
    counts = {'leaves': len(leaves), 'num_leaves': spec.num_leaves, 'len(spec)': len(spec), 'paths': len(ref_paths),
              'accessors': len(ref_accs), 'tree_paths': len(paths['tree_paths']), 'tree_accessors': len(accs['tree_accessors'])}
    if len(set(counts.values())) != 1:
        out.append(('C03.counts', f'counts differ: {counts!r}'))
    return out


def chk_leaf_tests(tree, o):
    """tree_is_leaf(x) <=> flatten(x) == ([x], leaf treespec); all_leaves(xs) <=> every element is a leaf."""
    out = []
    k = kw(o)
    with mode(o):
        leaves0, _, nodes = ref_walk(tree, o)
        cands = [tree] + leaves0 + [n[2] for n in nodes]
        verdict = []
        for x in cands:
            ls, sp = optree.tree_flatten(x, **k)
            crit = len(ls) == 1 and ls[0] is x and sp.is_leaf() and sp.num_nodes == 1
            got = optree.tree_is_leaf(x, **k)
            verdict.append(crit)
            if got is not crit:
                out.append(('C03.tree_is_leaf', f'tree_is_leaf({x!r}) = {got!r} but flatten gives ({ls!r}, {sp!r})'))
        real = optree.tree_leaves(tree, **k)
        groups = [(cands, all(verdict)), (real, True), ([], True), (real + [tree], bool(verdict[0])),
                  ([tree] + real, bool(verdict[0])), (tuple(real), True)]
        for xs, exp in groups:
            for how, arg in (('list', xs), ('iterator', iter(xs))):
                got = optree.all_leaves(arg, **k)
                if got is not exp:
                    out.append(('C03.all_leaves', f'all_leaves({how} of {xs!r}) = {got!r}, expected {exp!r}'))
    return out


def outcome(f):
    try:
        v = f()
        return ('ok', type(v).__name__, v)
    except Exception as ex:
        return ('exc', type(ex).__name__, None)


def pair(a, b):
    return (a, b)


def neg(x):
    return -x


def chk_reductions(tree, o):
    """tree_reduce/sum/max/min/all/any equal the Python fold over tree_leaves (value or exception type)."""
    out = []
    k = kw(o)
    with mode(o):
        leaves = optree.tree_leaves(tree, **k)
        cases = [
            ('C03.reduce', 'tree_reduce(pair)', lambda: optree.tree_reduce(pair, tree, **k), lambda: functools.reduce(pair, leaves)),
            ('C03.reduce', 'tree_reduce(pair, initial=100)', lambda: optree.tree_reduce(pair, tree, 100, **k),
             lambda: functools.reduce(pair, leaves, 100)),
            ('C03.reduce', 'tree_reduce(pair, initial=None)', lambda: optree.tree_reduce(pair, tree, None, **k),
             lambda: functools.reduce(pair, leaves, None)),
            ('C03.reduce', 'tree_reduce(add)', lambda: optree.tree_reduce(operator.add, tree, **k),
             lambda: functools.reduce(operator.add, leaves)),
            ('C03.sum', 'tree_sum()', lambda: optree.tree_sum(tree, **k), lambda: sum(leaves)),
            ('C03.sum', 'tree_sum(start=10)', lambda: optree.tree_sum(tree, 10, **k), lambda: sum(leaves, 10)),
            ('C03.sum', 'tree_sum(start=1.5)', lambda: optree.tree_sum(tree, 1.5, **k), lambda: sum(leaves, 1.5)),
            ('C03.max_min', 'tree_max()', lambda: optree.tree_max(tree, **k), lambda: max(leaves)),
            ('C03.max_min', 'tree_min()', lambda: optree.tree_min(tree, **k), lambda: min(leaves)),
            ('C03.max_min', 'tree_max(default=-1)', lambda: optree.tree_max(tree, default=-1, **k), lambda: max(leaves, default=-1)),
            ('C03.max_min', 'tree_min(default=None)', lambda: optree.tree_min(tree, default=None, **k), lambda: min(leaves, default=None)),
            ('C03.max_min', 'tree_max(key=neg)', lambda: optree.tree_max(tree, key=neg, **k), lambda: max(leaves, key=neg)),
            ('C03.max_min', 'tree_min(key=neg, default=7)', lambda: optree.tree_min(tree, key=neg, default=7, **k),
             lambda: min(leaves, key=neg, default=7)),
            ('C03.all_any', 'tree_all()', lambda: optree.tree_all(tree, **k), lambda: all(leaves)),
            ('C03.all_any', 'tree_any()', lambda: optree.tree_any(tree, **k), lambda: any(leaves)),
        ]
        for key, name, f, g in cases:
            a, b = outcome(f), outcome(g)
            if a != b:
                out.append((key, f'{name} -> {a!r}, Python fold over tree_leaves {leaves!r} -> {b!r}'))
    return out


def chk_sum_str(tree, o):
    """String leaves: tree_sum(tree, start=<str>) is the left fold start + l1 + l2 + ..."""
    k = kw(o)
    leaves = optree.tree_leaves(tree, **k)
    a = outcome(lambda: optree.tree_sum(tree, '>', **k))
    b = outcome(lambda: functools.reduce(operator.add, leaves, '>'))
    return [] if a == b else [('C03.sum', f"tree_sum(start='>') -> {a!r}, fold over {leaves!r} -> {b!r}")]


ENTRY_POINTS = {
    'tree_flatten': lambda t, k: optree.tree_flatten(t, **k)[0],
    'tree_flatten_with_path': lambda t, k: optree.tree_flatten_with_path(t, **k)[1],
    'tree_flatten_with_accessor': lambda t, k: optree.tree_flatten_with_accessor(t, **k)[1],
    'tree_leaves': lambda t, k: optree.tree_leaves(t, **k),
    'tree_iter': lambda t, k: list(optree.tree_iter(t, **k)),
    'tree_structure': lambda t, k: optree.tree_structure(t, **k) and None,
    'tree_paths': lambda t, k: optree.tree_paths(t, **k) and None,
    'tree_accessors': lambda t, k: optree.tree_accessors(t, **k) and None,
    'tree_reduce': lambda t, k: optree.tree_reduce(lambda a, b: a, t, None, **k) and None,
    'tree_all': lambda t, k: optree.tree_all(t, **k) and None,
    'tree_map': lambda t, k: optree.tree_map(lambda x: x, t, **k) and None,
}


def chk_parity(tree, o):
    """An input that makes one traversal raise makes all of them raise the same exception type."""
    k = kw(o)
    res = {}
    for name, f in ENTRY_POINTS.items():
        try:
            res[name] = ('ok', f(tree, k))
        except Exception as ex:
            res[name] = ('exc', type(ex).__name__)
    kinds = {(r[0], r[1] if r[0] == 'exc' else None) for r in res.values()}
    if len(kinds) != 1:
        return [('C03.exception_parity', 'outcomes differ: ' + ', '.join(f'{n}: {r[1] if r[0] == "exc" else "ok"}' for n, r in res.items()))]
    if res['tree_flatten'][0] == 'ok':
        base = res['tree_flatten'][1]
        for n, r in res.items():
            if r[1] is not None and not ids_equal(r[1], base):
                return [('C03.leaves_agree', f'{n} leaves {r[1]!r} != tree_flatten leaves {base!r}')]
    return []


FN_SRC = None


def fn_src():
    global FN_SRC
    if FN_SRC is None:
        ep = 'ENTRY_POINTS = {\n' + ''.join(
            f"    {n!r}: {U.inspect.getsource(f).split(': ', 1)[1].rstrip().rstrip(',')},\n" for n, f in ENTRY_POINTS.items()) + '}\n'
        FN_SRC = 'import operator\n' + U.ref_src() + U.SRC(chk_agree, chk_leaf_tests, outcome, pair, neg, chk_reductions,
                                                         chk_sum_str) + ep + U.SRC(chk_parity)
    return FN_SRC


# ---- over-deep trees (child process) -------------------------------------------------------------

DEEP_CODE = r'''
import sys, json, collections
import optree
from ocv.bounded import scope as S
S.ensure_registered()
sys.setrecursionlimit(100000)
LIMIT = optree.MAX_RECURSION_DEPTH
MAKERS = {
    'list': lambda x: [x], 'tuple': lambda x: (x,), 'dict': lambda x: {'k': x}, 'odict': lambda x: collections.OrderedDict(k=x),
    'ddict': lambda x: collections.defaultdict(list, k=x), 'deque': lambda x: collections.deque([x]),
    'namedtuple': lambda x: S.Single(x), 'customF': lambda x: S.CustomF([x]), 'customE': lambda x: S.CustomE([x]),
    'mixed': None,
}
ENTRY = {
    'tree_flatten': lambda t: optree.tree_flatten(t), 'tree_flatten_with_path': lambda t: optree.tree_flatten_with_path(t),
    'tree_iter': lambda t: list(optree.tree_iter(t)), 'tree_leaves': lambda t: optree.tree_leaves(t),
    'tree_structure': lambda t: optree.tree_structure(t), 'tree_paths': lambda t: optree.tree_paths(t),
    'tree_flatten_with_accessor': lambda t: optree.tree_flatten_with_accessor(t), 'tree_accessors': lambda t: optree.tree_accessors(t),
}
def build(kind, depth):
    t = S.L(0)
    names = [k for k in MAKERS if k != 'mixed']
    for i in range(depth):
        t = MAKERS[names[i % len(names)] if kind == 'mixed' else kind](t)
    return t
res = {}
for kind in KINDS:
    for depth in range(LIMIT - 2, LIMIT + 4):
        t = build(kind, depth)
        row = {}
        for name, f in ENTRY.items():
            try:
                f(t); row[name] = 'ok'
            except Exception as ex:
                row[name] = type(ex).__name__
        res[f'{kind}@{depth}'] = row
        # iterative teardown is left to the interpreter (trashcan)
print('RESULT ' + json.dumps(res))
'''

DEEP_CHECK = r'''
bad = {k: row for k, row in res.items() if len(set(row.values())) != 1}
for k, row in bad.items():
    print(k, row)
sys.exit(1 if bad else 0)
'''


def deep_part(col, tier):
    kinds = ['list', 'dict', 'customF', 'mixed'] if tier == 'quick' else \
        ['list', 'tuple', 'dict', 'odict', 'ddict', 'deque', 'namedtuple', 'customF', 'customE', 'mixed']
    code = f'KINDS = {kinds!r}\n' + DEEP_CODE
    rc, out, err = U.run_child(code, timeout=600)
    script = code + DEEP_CHECK
    line = next((ln for ln in out.splitlines() if ln.startswith('RESULT ')), None)
    if rc != 0 or line is None:
        col.tick()
        col.finding('C03.depth_limit_crash', f'child process flattening trees around depth MAX_RECURSION_DEPTH exited with '
                    f'{rc}: {err[-300:]}', script, {'returncode': rc})
        return 0
    res = json.loads(line[7:])
    limit = optree.MAX_RECURSION_DEPTH
    for key, row in res.items():
        col.tick()
        col.nontrivial(('deep', key))
        if len(set(row.values())) != 1:
            col.finding('C03.depth_limit_parity', f'nesting {key} (MAX_RECURSION_DEPTH={limit}): outcomes differ {row!r}',
                        script, {'case': key})
        elif any(v not in ('ok', 'RecursionError') for v in row.values()):
            col.finding('C03.unexpected_exception', f'nesting {key}: {row!r}', script, {'case': key})
    col.sample('deep: ' + ', '.join(f'{k}: {sorted(set(r.values()))}' for k, r in list(res.items())[:6]))
    return len(res)


# ---- scope ---------------------------------------------------------------------------------------

class NumGen(U.TreeGenA):
    """Same universe, numeric (or string) leaves for the reductions."""
    VALUES = [3, 0, 5, 3, -2, 0, 7, 1]

    def __init__(self, *a, strings=False, **k):
        super().__init__(*a, **k)
        self.strings = strings

    def build(self, descr, counter=None):
        if counter is None:
            counter = U.itertools.count()
        if descr[0] == 'leaf':
            i = next(counter)
            return f's{i}' if self.strings else self.VALUES[i % len(self.VALUES)]
        return super().build(descr, counter)


def malformed_trees():
    L = S.L
    for name, cls in BAD.items():
        yield name, cls(L(0), L(1))
        yield name, [L(0), cls(L(1), (L(2),)), L(3)]
        yield name, {'b': L(0), 'a': cls(L(1))}
        yield name, (L(0), (cls(),))
        yield name, S.CustomE([L(0), cls(L(1), L(2))])
    for a, b in [('raises_key', 'tuple1'), ('tuple1', 'raises_key'), ('entries_short', 'raises_key'),
                 ('entries_long', 'children_int'), ('ok_generator_children', 'tuple4'), ('entries_int', 'not_a_tuple')]:
        yield f'{a}+{b}', [BAD[a](L(0)), BAD[b](L(1))]
        yield f'{a}>{b}', BAD[a](L(0), BAD[b](L(1)), L(2))


def bad_src(t):
    """Source expression for trees holding Bad_* nodes."""
    if isinstance(t, BadBase):
        return f"BAD[{type(t).__name__[4:]!r}]({', '.join(bad_src(c) for c in t.ch)})"
    if type(t) is list:
        return '[' + ', '.join(bad_src(c) for c in t) + ']'
    if type(t) is tuple:
        return '(' + ''.join(bad_src(c) + ', ' for c in t) + ')'
    if type(t) is dict:
        return '{' + ', '.join(f'{k!r}: {bad_src(v)}' for k, v in t.items()) + '}'
    if type(t) is S.CustomE:
        return f'S.CustomE([{", ".join(bad_src(c) for c in t.children)}])'
    return U.to_src(t)


def run(tier: str, seed: int):
    col = U.Collector('C03 bounded: all-pairs agreement of the traversal entry points')
    src = fn_src()
    if tier == 'quick':
        g, ds, txt = U.universe(tier, seed, U.EXT, quick_nodes=4, quick_limit=3500)
    else:
        g, ds, txt = U.universe(tier, seed, U.EXT, thorough_nodes=4)
        ds += U.random_descrs(seed, U.EXT, 5, 9000) + U.random_descrs(seed, U.EXT, 6, 6000) + U.random_descrs(seed, U.EXT, 7, 3000)
        txt += '; 9000/6000/3000 seeded random 5/6/7-node trees'
    gn = NumGen(U.EXT, seed=seed)
    gs = NumGen(U.EXT, seed=seed, strings=True)
    for i, d in enumerate(ds):
        tree = g.build(d)
        num = gn.build(d)
        ks = U.kinds_in(d)
        has_dict = bool(ks & (U.DICT_KINDS | {'empty_dict', 'partial', 'partial_kw'}))
        nontrivial = S.count_nodes(d) > 1
        for o in U.grid(ins_modes=(False, True) if has_dict else (False,)):
            U.run_checks(col, PROP, [chk_agree, chk_leaf_tests], src, tree, lambda tree=tree: U.to_src(tree), o,
                         f'tree {S.show(d)} [{U.opt_repr(o)}]')
            if not o['ins']:
                U.run_checks(col, PROP, [chk_reductions], src, num, lambda num=num: U.to_src(num), o,
                             f'tree {num!r} [{U.opt_repr(o)}]')
                if o['is_leaf'] is None and o['namespace'] != S.NS_OTHER:
                    st = gs.build(d)
                    U.run_checks(col, PROP, [chk_sum_str], src, st, lambda st=st: U.to_src(st), o,
                                 f'tree {st!r} [{U.opt_repr(o)}]')
            if nontrivial:
                col.nontrivial((S.show(d), U.opt_repr(o)))
        if i % 2501 == 9:
            col.sample(f'{S.show(d)}: leaves {optree.tree_leaves(tree)!r} paths {optree.tree_paths(tree)!r}')
    # malformed custom nodes
    nm = 0
    for name, t in malformed_trees():
        for nil in (False, True):
            for pred in (None, S.is_leaf_list):
                o = {'none_is_leaf': nil, 'namespace': BAD_NS, 'is_leaf': pred, 'ins': False}
                col.tick()
                nm += 1
                col.nontrivial(('bad', name, bad_src(t), nil, bool(pred)))
                for key, msg in chk_parity(t, o):
                    col.finding(key, f'malformed custom node {name}: tree {t!r} [{U.opt_repr(o)}]: {msg}',
                                U.make_script(bad_src(t), o, src, 'chk_parity(tree, o)', key, pre=BAD_SRC + '\n'))
    col.sample(f"malformed: {BAD['entries_short'](S.L(0), S.L(1))!r} -> "
               f"{chk_parity(BAD['entries_short'](S.L(0), S.L(1)), {'none_is_leaf': False, 'namespace': BAD_NS, 'is_leaf': None}) or 'all RuntimeError'}")
    nd = deep_part(col, tier)
    return col.done(
        rule='non-trivial = tree with at least one internal node / every malformed-node case / every (kind, depth) '
             'nesting case; counted per distinct (input description, options)',
        scope=f'{txt}; kinds {U.EXT}; x none_is_leaf x namespace in {S.NAMESPACES} x is_leaf in [None, is_leaf_list, '
              f'is_leaf_dictlike] x dict-order mode; reductions on the same trees with int leaves {NumGen.VALUES} (and str '
              f'leaves for tree_sum); {nm} malformed-custom-node cases ({list(MALFORMED)} at 5 positions + 12 double '
              f'malformations x none_is_leaf x predicate); {nd} (container kind, depth) chains with depth in '
              f'MAX_RECURSION_DEPTH-2..+3 (child process)',
        exhaustive=False,
        notes='exception parity compares exception *types* only (a flatten function raising StopIteration is left out: '
              'tree_iter.__next__ propagates it like the others, but every consumer of an iterator reads it as exhaustion); the reductions compare value and type of the result, or the '
              'exception type, with the Python fold over tree_leaves.',
    )
