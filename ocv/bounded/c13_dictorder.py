"""C13 - insertion-ordered dict mode is scoped to its namespace and with-block (bounded contract monitor).

Histories are well-nested forests of `with optree.dict_insertion_ordered(mode, namespace=N)` blocks
(N in {GLOBAL sentinel, 'a', 'b'}, mode in {True, False}, exit in {normal, exception caught right outside the
block, exception propagating through all enclosing blocks}). They are executed with real `with` statements.
At every event (after each enter, after each exit) every observer runs in every namespace {'', 'a', 'b', 'c'}
and is compared with a reference model: Omega = set of namespaces in insertion-ordered mode (a stack of
snapshots gives "exactly as before entry"); flattening in namespace X is insertion-ordered iff X in Omega or
'' in Omega; OrderedDict is never re-ordered; everything round-trips.

The part between the core markers is self-contained and pasted into the replay scripts.
"""
from __future__ import annotations

import itertools
import random

from ocv.bounded import _util_c as U
from ocv.result import BoundedReport

# >>> core
import sys
from collections import OrderedDict, defaultdict

import optree
import optree.registry as _registry

GLOBAL = next(v for k, v in vars(_registry).items() if k.endswith('__GLOBAL_NAMESPACE'))
NS_ARG = {'G': GLOBAL, 'a': 'a', 'b': 'b'}
NS_KEY = {'G': '', 'a': 'a', 'b': 'b'}
OBS_NAMESPACES = ('', 'a', 'b', 'c')
FAMILY_TREES = ('dict', 'ordereddict', 'nested')    # trees given to the traversal entry points
ACCESSOR_TREES = ('dict', 'nested')
DICT_TREES = ('dict', 'defaultdict', 'ordereddict', 'intkeys')   # one-level / handler / constructor observers
LIGHT = ('dict/tree_flatten', 'dict/tree_iter', 'ordereddict/tree_flatten', 'ordereddict/tree_iter',
         'dict/tree_flatten_one_level', 'defaultdict/tree_flatten_one_level', 'dict/registry_get_handler',
         'defaultdict/registry_get_handler', 'dict/treespec_constructors', 'defaultdict/treespec_constructors')


class Boom(Exception):
    pass


class BoomThrough(Exception):
    pass


def _dd(pairs):
    d = defaultdict(list)
    for k, v in pairs:
        d[k] = v
    return d


def make_trees():
    """Dict-bearing pytrees with integer leaves; insertion order of the keys is never the sorted order."""
    return {
        'dict': {'b': 0, 'c': 1, 'a': 2},
        'defaultdict': _dd([('y', 0), ('x', 1), ('z', 2)]),
        'ordereddict': OrderedDict([('q', 0), ('r', 1), ('p', 2)]),
        'intkeys': {3: 0, 1: 1, 2: 2},
        'nested': ({'k2': [0, {'n': 1, 'm': 2}], 'k1': _dd([('v', 3), ('u', OrderedDict([('t', 4), ('s', {'j': 5, 'i': 6})]))])},
                   None, OrderedDict([('o2', {'h': 7, 'g': 8}), ('o1', 9)])),
    }


# ---- reference flatten (independent of optree) --------------------------------------------------

def ref_walk(tree, ordered, path=()):
    """Yield (path, leaf) in the order the contract prescribes. ordered = insertion-ordered mode."""
    if tree is None:
        return
    if isinstance(tree, OrderedDict):
        for k in list(tree):
            yield from ref_walk(tree[k], ordered, path + (k,))
    elif isinstance(tree, dict):                      # dict and defaultdict
        keys = list(tree) if ordered else sorted(tree)
        for k in keys:
            yield from ref_walk(tree[k], ordered, path + (k,))
    elif isinstance(tree, (tuple, list)):
        for i, c in enumerate(tree):
            yield from ref_walk(c, ordered, path + (i,))
    else:
        yield path, tree


def ref_keys(d, ordered):
    if isinstance(d, OrderedDict) or ordered:
        return list(d)
    return sorted(d)


def same(a, b):
    """Round-trip equality: same exact types, equal keys / default factories / leaves."""
    if type(a) is not type(b):
        return False
    if isinstance(a, dict):
        if isinstance(a, defaultdict) and a.default_factory is not b.default_factory:
            return False
        return set(a) == set(b) and all(same(a[k], b[k]) for k in a)
    if isinstance(a, (tuple, list)):
        return len(a) == len(b) and all(same(x, y) for x, y in zip(a, b))
    return a == b


# ---- observers ----------------------------------------------------------------------------------

def _guard(fn):
    try:
        return fn()
    except Exception as e:   # noqa: BLE001 - an unexpected exception is an observation
        return 'EXC:%s:%s' % (type(e).__name__, str(e)[:160])


class _Out(dict):
    """Observation table; with a `only` filter the other observers are not even executed."""

    def __init__(self, only=None):
        super().__init__()
        self.only = only

    def put(self, name, fn):
        if self.only is None or name in self.only:
            self[name] = _guard(fn)


def observe(trees, ns, only=None):
    """name -> JSON-able observation, for every tree and every entry point the property lists."""
    out = _Out(only)
    leaf = optree.treespec_leaf()
    for name in FAMILY_TREES:
        t = trees[name]

        def flat():
            leaves, spec = optree.tree_flatten(t, namespace=ns)
            back = optree.tree_unflatten(spec, leaves)
            return {'leaves': leaves, 'spec_paths': [list(p) for p in spec.paths()], 'roundtrip': same(back, t)}
        out.put(name + '/tree_flatten', flat)

        def withpath():
            paths, leaves, spec = optree.tree_flatten_with_path(t, namespace=ns)
            return {'paths': [list(p) for p in paths], 'leaves': leaves, 'spec_paths': [list(p) for p in spec.paths()]}
        out.put(name + '/tree_flatten_with_path', withpath)

        def withacc():
            accs, leaves, spec = optree.tree_flatten_with_accessor(t, namespace=ns)
            return {'paths': [list(a.path) for a in accs], 'leaves': leaves, 'via_accessor': [a(t) for a in accs]}
        if name in ACCESSOR_TREES:
            out.put(name + '/tree_flatten_with_accessor', withacc)
        out.put(name + '/tree_iter', lambda: list(optree.tree_iter(t, namespace=ns)))
        out.put(name + '/tree_leaves', lambda: optree.tree_leaves(t, namespace=ns))
        out.put(name + '/tree_paths', lambda: [list(p) for p in optree.tree_paths(t, namespace=ns)])

        def structure():
            spec = optree.tree_structure(t, namespace=ns)
            n = spec.num_leaves
            back = optree.tree_unflatten(spec, list(range(100, 100 + n)))
            # leaf i of the traversal was replaced by 100 + i: read the positions back through the reference walk
            return {'spec_paths': [list(p) for p in spec.paths()],
                    'positions': sorted((list(p), v) for p, v in ref_walk(back, True))}
        out.put(name + '/tree_structure', structure)

        def tmap():
            seen = []
            res = optree.tree_map(lambda x: (seen.append(x), x)[1], t, namespace=ns)
            return {'calls': seen, 'roundtrip': same(res, t)}
        out.put(name + '/tree_map', tmap)

    for name in DICT_TREES:
        d = trees[name]

        def one_level():
            o = optree.tree_flatten_one_level(d, namespace=ns)
            back = o.unflatten_func(o.metadata, o.children)
            return {'children': o.children, 'entries': list(o.entries), 'roundtrip': same(back, d)}
        out.put(name + '/tree_flatten_one_level', one_level)

        def handler():
            h = optree.register_pytree_node.get(type(d), namespace=ns)
            r = tuple(h.flatten_func(d))
            children, metadata = list(r[0]), r[1]
            return {'children': children, 'entries': list(r[2]) if len(r) > 2 and r[2] is not None else None,
                    'roundtrip': same(h.unflatten_func(metadata, children), d)}
        out.put(name + '/registry_get_handler', handler)

        def handler_all():
            h = optree.register_pytree_node.get(namespace=ns)[type(d)]
            r = tuple(h.flatten_func(d))
            return {'children': list(r[0])}
        out.put(name + '/registry_get_all_handler', handler_all)

        def ctor():
            specs = type(d)((k, leaf) for k in d) if not isinstance(d, defaultdict) else None
            if isinstance(d, OrderedDict):
                s1 = optree.treespec_ordereddict(specs, namespace=ns)
            elif isinstance(d, defaultdict):
                specs = _dd((k, leaf) for k in d)
                s1 = optree.treespec_defaultdict(list, {k: leaf for k in d}, namespace=ns)
            else:
                s1 = optree.treespec_dict(specs, namespace=ns)
            s2 = optree.treespec_from_collection(specs, namespace=ns)
            b1 = optree.tree_unflatten(s1, list(range(s1.num_leaves)))
            return {'ctor_entries': s1.entries(), 'from_collection_entries': s2.entries(),
                    'ctor_unflatten': [[k, v] for k, v in sorted(b1.items(), key=lambda kv: kv[1])],
                    'types': [type(b1).__name__, s2.type.__name__]}
        out.put(name + '/treespec_constructors', ctor)
    return out


def expect(trees, ordered):
    out = {}
    for name in FAMILY_TREES:
        t = trees[name]
        walk = list(ref_walk(t, ordered))
        paths = [list(p) for p, _ in walk]
        leaves = [v for _, v in walk]
        out[name + '/tree_flatten'] = {'leaves': leaves, 'spec_paths': paths, 'roundtrip': True}
        out[name + '/tree_flatten_with_path'] = {'paths': paths, 'leaves': leaves, 'spec_paths': paths}
        if name in ACCESSOR_TREES:
            out[name + '/tree_flatten_with_accessor'] = {'paths': paths, 'leaves': leaves, 'via_accessor': leaves}
        out[name + '/tree_iter'] = leaves
        out[name + '/tree_leaves'] = leaves
        out[name + '/tree_paths'] = paths
        out[name + '/tree_structure'] = {'spec_paths': paths, 'positions': sorted((p, 100 + i) for i, p in enumerate(paths))}
        out[name + '/tree_map'] = {'calls': leaves, 'roundtrip': True}
    for name in DICT_TREES:
        d = trees[name]
        keys = ref_keys(d, ordered)
        vals = [d[k] for k in keys]
        out[name + '/tree_flatten_one_level'] = {'children': vals, 'entries': keys, 'roundtrip': True}
        out[name + '/registry_get_handler'] = {'children': vals, 'entries': keys, 'roundtrip': True}
        out[name + '/registry_get_all_handler'] = {'children': vals}
        out[name + '/treespec_constructors'] = {'ctor_entries': keys, 'from_collection_entries': keys,
                                                'ctor_unflatten': [[k, i] for i, k in enumerate(keys)],
                                                'types': [type(d).__name__, type(d).__name__]}
    return out


# ---- histories ----------------------------------------------------------------------------------
# block = (mode, ns, exit, children)   exit in {'normal', 'raise', 'through'}   ns in {'G','a','b'}
# fault = ('fault', bad_namespace_repr)   -> entering must raise and change nothing

def show(block):
    if block[0] == 'fault':
        return 'enter(True, namespace=%s)!' % block[1]
    mode, ns, ex, children = block
    inner = ' '.join(show(c) for c in children)
    return 'with(%s,%s){%s}%s' % (mode, {'G': 'GLOBAL'}.get(ns, repr(ns)), inner, {'normal': '', 'raise': '^', 'through': '^^'}[ex])


N_OBS = len(OBS_NAMESPACES)


class Runner:
    def __init__(self, light=False):
        self.only = LIGHT if light else None
        self.trees = make_trees()
        self.omega = set()
        self.violations = []     # (key, event description, detail)
        self.evals = 0
        self.events = 0
        self.active = 0          # number of blocks currently entered according to the history
        self._expected = {True: expect(self.trees, True), False: expect(self.trees, False)}

    def check(self, event, kind):
        """kind: 'enter' | 'exit' | 'start' - decides which clause a mismatch violates."""
        self.events += 1
        for ns in OBS_NAMESPACES:
            ordered = ns in self.omega or '' in self.omega
            obs = observe(self.trees, ns, self.only)
            exp = self._expected[ordered]
            names = exp if self.only is None else self.only
            self.evals += len(names)
            for name in names:
                o, e = obs.get(name), exp[name]
                if o == e:
                    continue
                if isinstance(o, str) and o.startswith('EXC:'):
                    key = 'C13.unexpected_exception'
                elif isinstance(o, dict) and o.get('roundtrip') is False:
                    key = 'C13.roundtrip_under_mode'
                elif kind in ('exit', 'start'):
                    key = 'C13.mode_restored_after_exit'
                elif name.startswith('ordereddict/'):
                    key = 'C13.ordereddict_unaffected'
                elif 'registry_get' in name or 'one_level' in name:
                    key = 'C13.python_lookup_reflects_mode'
                elif ordered:
                    key = 'C13.insertion_order_in_scoped_namespace'
                else:
                    key = 'C13.other_namespaces_keep_sorted_order'
                self.violations.append((key, event, '%s in namespace %r (model: %s, insertion-ordered namespaces %s): observed %r, '
                                        'expected %r' % (name, ns, 'insertion order' if ordered else 'sorted order',
                                                         sorted(self.omega), o, e)))
                return False
        return True

    def run_block(self, block, depth):
        if block[0] == 'fault':
            bad = {"''": '', '1': 1, 'None': None}[block[1]]
            self.evals += 1
            try:
                with optree.dict_insertion_ordered(True, namespace=bad):
                    entered = True
            except (ValueError, TypeError):
                entered = False
            if entered:
                self.violations.append(('C13.invalid_namespace_rejected', show(block), 'entering with namespace=%r did not raise' % (bad,)))
            return self.check('after rejected ' + show(block), 'exit')
        mode, ns, ex, children = block
        before = set(self.omega)
        label = 'with(%s,%s) at depth %d' % (mode, {'G': 'GLOBAL'}.get(ns, repr(ns)), depth)
        ok = True
        try:
            with optree.dict_insertion_ordered(mode, namespace=NS_ARG[ns]):
                (self.omega.add if mode else self.omega.discard)(NS_KEY[ns])
                ok = self.check('after entering ' + label, 'enter')
                for c in children:
                    if not ok:
                        break
                    ok = self.run_block(c, depth + 1)
                if ok and ex == 'raise':
                    raise Boom()
                if ok and ex == 'through':
                    raise BoomThrough()
        except Boom:
            pass
        except BoomThrough:
            self.omega = before
            if ok:
                ok = self.check('after %s was left by a propagating exception' % label, 'exit')
            if depth > 0 and ok:
                raise
            return ok
        self.omega = before
        if ok:
            ok = self.check('after leaving %s (%s)' % (label, 'normally' if ex == 'normal' else 'by exception'), 'exit')
        return ok


def run_history(forest, light=False):
    """light=True: a fixed subset of the observers (LIGHT) runs at every event instead of all of them."""
    r = Runner(light)
    ok = r.check('before the first block', 'start')
    for b in forest:
        if not ok:
            break
        try:
            ok = r.run_block(b, 0)
        except BoomThrough:
            pass
        except Exception as e:   # noqa: BLE001
            r.violations.append(('C13.unexpected_exception', show(b), 'history raised %s: %s' % (type(e).__name__, e)))
            ok = False
    if not ok:
        force_reset()
    return r.violations, r.evals, r.events


def force_reset():
    import optree._C as _C
    for ns in ('', 'a', 'b', 'c'):
        _C.set_dict_insertion_ordered(False, ns)
# <<< core


# ------------------------------------------------------------------------------------------------
# enumeration of well-nested forests

def _blocks(max_depth: int, n_blocks: int, exits):
    """All forests (tuples of blocks) with exactly n_blocks blocks and nesting depth <= max_depth."""
    heads = [(m, ns) for ns in ('G', 'a', 'b') for m in (True, False)]

    def forests(n, depth, top):
        if n == 0:
            yield ()
            return
        if depth == 0:
            return
        for first in range(1, n + 1):          # size of the first tree
            for t in trees(first, depth, top):
                for rest in forests(n - first, depth, top):
                    yield (t,) + rest

    def trees(n, depth, top):
        for ch in forests(n - 1, depth - 1, False):
            for m, ns in heads:
                for ex in exits:
                    if ex == 'through' and top:
                        continue            # at top level it is the same history as 'raise'
                    yield (m, ns, ex, ch)
    yield from forests(n_blocks, max_depth, True)


def _depth(forest) -> int:
    return max((1 + _depth(b[3]) for b in forest if b[0] != 'fault'), default=0)


def _count(forest) -> int:
    return sum(1 + _count(b[3]) for b in forest if b[0] != 'fault')


def _core_source() -> str:
    src = open(__file__).read()
    return src[src.index('\n# >>> core\n') + 1:src.index('\n# <<< core\n') + 1]


def _script(forest, key, light) -> str:
    return (_core_source() + '\n\n'
            f'FOREST = {forest!r}\nKEY = {key!r}\n'
            'try:\n'
            f'    found, _, _ = run_history(FOREST, {light!r})\n'
            'except Exception:\n'
            '    import traceback\n'
            '    traceback.print_exc()\n'
            '    sys.exit(2)   # the replay itself is broken - not a reproduction\n'
            'for k, ev, d in found:\n'
            '    print(k, ev, d)\n'
            'sys.exit(1 if any(k == KEY for k, _, _ in found) else 0)\n')


def _nontrivial(forest) -> bool:
    """At least one block that changes the effective order of some namespace: mode=True somewhere."""
    return any(b[0] is True or _nontrivial(b[3]) for b in forest if b[0] != 'fault')


def _run(ctx: U.Ctx, tier: str, seed: int) -> BoundedReport:
    rng = random.Random(seed)
    n_hist = 0
    n_events = 0

    def one(forest, light):
        nonlocal n_hist, n_events
        n_hist += 1
        if n_hist % 16 == 0:
            ctx.progress(' '.join(show(b) for b in forest))
        found, evals, events = run_history(forest, light)
        n_events += events
        ctx.count(evals)
        if _nontrivial(forest):
            ctx.mark_nontrivial(forest)
        for key, ev, detail in found:
            ctx.fail(key, f'history [{" ".join(show(b) for b in forest)}], {ev}: {detail}',
                     lambda: _script(forest, key, light), {'forest': repr(forest), 'event': ev})

    parts = []
    complete = True
    exits2 = ('normal', 'raise')
    exits3 = ('normal', 'raise', 'through')

    def enum(gen, light=False):
        for k, f in enumerate(gen):
            one(f, light)
            if k % 64 == 0 and ctx.out_of_time():
                return False
        return True

    # 1. every history with <= 2 blocks, all exit kinds, ALL observers; rejected enters
    for n in (1, 2):
        complete &= enum(_blocks(3, n, exits3))
    parts.append('all well-nested histories with <=2 blocks x exit {normal, exception caught outside the block, exception '
                 'propagating through all enclosing blocks} with all observers')
    faults = [('fault', "''"), ('fault', '1'), ('fault', 'None')]
    complete &= enum((f,) for f in faults)
    complete &= enum(((m, ns, ex, (f,)),) for m in (True, False) for ns in ('G', 'a') for ex in exits2 for f in faults)
    parts.append("rejected enters (namespace '', 1, None) at top level and inside a block")
    # 2. three blocks (nesting depth <= 3)
    all3 = list(_blocks(3, 3, exits3))
    if tier == 'quick':
        chains = [f for f in all3 if _depth(f) == 3]
        others = [f for f in all3 if _depth(f) < 3]
        complete &= enum(chains, light=True)
        parts.append(f'all {len(chains)} nesting chains of depth 3 (3 exit kinds) with the light observer set '
                     f'({len(LIGHT)} observers per namespace and event)')
        rng.shuffle(others)
        k = 0
        for f in others[:1500]:
            if ctx.time_left() < 8:
                break
            one(f, True)
            k += 1
        parts.append(f'{k} of the {len(others)} other 3-block histories (with sibling blocks; seeded sample), light observer set')
        sample = list(chains)
        rng.shuffle(sample)
        k = 0
        for f in sample[:150]:
            if ctx.time_left() < 2:
                break
            one(f, False)
            k += 1
        parts.append(f'{k} depth-3 chains (seeded sample) again with all observers')
    else:
        complete &= enum(all3)
        parts.append(f'all {len(all3)} histories with 3 blocks (depth<=3, 3 exit kinds) with all observers')
        gen4 = list(_blocks(3, 4, exits3))
        rng.shuffle(gen4)
        k = 0
        for f in gen4:
            if ctx.time_left() < 20:
                break
            one(f, True)
            k += 1
        parts.append(f'{k} of {len(gen4)} histories with 4 blocks and depth<=3 (seeded sample until the time budget) with the '
                     f'light observer set')

    trees = make_trees()
    ctx.sample('trees: ' + repr({k: v for k, v in trees.items() if k != 'nested'})[:300])
    for f in [((True, 'a', 'normal', ((False, 'G', 'raise', ((True, 'b', 'normal', ()),)),)),),
              ((True, 'G', 'raise', ((False, 'a', 'normal', ()),)), (True, 'b', 'normal', ())),
              ((False, 'a', 'normal', ((True, 'a', 'through', ()),)),)]:
        ctx.sample(' '.join(show(b) for b in f))
    ctx.notes.append('not checked: the namespace recorded on treespecs built under the mode; thread-safety (excluded by the '
                     'documentation); truthy non-bool modes. Inside with(False, N) nested in with(True, GLOBAL) the model keeps '
                     'insertion order for N ("any namespace when N is the global namespace")')
    return ctx.report(
        rule='a history is non-trivial iff it contains a block with mode=True; one evaluation = one observer (tree_flatten, '
             'tree_flatten_with_path, tree_flatten_with_accessor, tree_iter, tree_leaves, tree_paths, tree_structure+unflatten, '
             'tree_map, tree_flatten_one_level, register_pytree_node.get(type) and .get()[type] handlers, treespec_dict / '
             'treespec_defaultdict / treespec_ordereddict / treespec_from_collection) on one tree in one namespace at one '
             'event, compared with the reference order given by the model Omega',
        scope=f'{n_hist} histories, {n_events} events (after every enter and after every exit), each observed in namespaces '
              f"'', 'a', 'b', 'c' on dict-bearing trees (dict, OrderedDict and a nested mix of dict / defaultdict / OrderedDict "
              f'/ list / tuple / None for the traversals; dict, defaultdict, OrderedDict, int-keyed dict for the one-level, '
              f'handler and constructor observers): ' + '; '.join(parts),
        exhaustive=complete and tier != 'quick')


def run(tier: str, seed: int) -> BoundedReport:
    budget = 45 if tier == 'quick' else 600
    return U.run_isolated('c13_dictorder', 'C13', tier, seed, budget_s=budget, hard_timeout_s=budget * 2 + 60)
