"""C16 - no input can make the extension touch invalid memory or overflow the stack (bounded monitor).

Every case is a self-contained script executed in a child process (see `_util_d`): exit 0 = contract
held, exit 1 = violation printed as `VIOLATION: ...`, death by signal = crash, timeout = hang.

Sections (clauses of the property statement)
  A depth      nesting depth limit-1 / limit / limit+1 for every node kind x {flatten, flatten_with_path,
               tree_iter}: same outcome in all three, success at/below the limit, RecursionError above;
               at/below the limit the other operations work as well.
  B selfref    self-referential containers and never-terminating custom flatten functions:
               RecursionError in all three traversals, after the same number of visited nodes.
  C mutation   containers mutated by a user callback during a traversal: traversal x container kind x
               callback position x mutation => Python exception or a consistent result.
  D args       treespec methods with out-of-range / mismatched arguments, malformed pickle states.
  E confusion  arbitrary objects for every parameter of every public function and treespec method.
  F deepspec   treespecs deepened by compose-doubling, every treespec operation: no stack overflow.
"""
from __future__ import annotations

import inspect
import itertools
import json
import random
import time

import optree

from ocv.bounded import _util_d as U
from ocv.result import BoundedReport, Finding

# ------------------------------------------------------------------------------------------------
# common prelude of all case scripts

PRELUDE = r'''
import sys, collections, pickle, weakref, gc, time, os
from collections import OrderedDict, defaultdict, deque, namedtuple
import optree

import resource
try:      # a malformed size must end in MemoryError, not in swapping the machine
    resource.setrlimit(resource.RLIMIT_AS, (3 << 30, 3 << 30))
except (ValueError, OSError):
    pass
GLOBAL_NS = getattr(optree.registry, '__GLOBAL_NAMESPACE')

def violation(msg):
    print('VIOLATION: ' + str(msg).replace('\n', ' ')[:600], flush=True)
    sys.exit(1)

def null_symptom(e):
    """CPython's own 'error return without exception set' / 'result with an exception set': the engine handed a
    null or stale handle to the interpreter (optree.InternalError is a *subclass* and is an ordinary exception)"""
    return type(e) is SystemError

def outcome(fn):
    """-> 'ok' | exception class name (the exception is part of the observation, never ignored)."""
    try:
        fn()
    except RecursionError:
        return 'RecursionError'
    except BaseException as e:
        return type(e).__name__ + ': ' + str(e)[:120]
    return 'ok'
'''

# ------------------------------------------------------------------------------------------------
# A. nesting depth around the limit

DEPTH_KINDS = ['tuple', 'list', 'dict', 'odict', 'ddict', 'deque', 'namedtuple', 'structseq',
               'custom_entries', 'custom_plain', 'custom_ns']

_DEPTH_BODY = r'''
LIMIT = optree.MAX_RECURSION_DEPTH
N = LIMIT + P['delta']            # number of containers around the terminal
KIND, TERMINAL, NIL = P['kind'], P['terminal'], P['nil']
NS = 'c16_depth_ns'
NT = namedtuple('NT', ['only'])

class CE:
    def __init__(self, x): self.x = x
class CP:
    def __init__(self, x): self.x = x
class CN:
    def __init__(self, x): self.x = x
optree.register_pytree_node(CE, lambda o: ((o.x,), 'meta', ('x',)), lambda m, ch: CE(*ch), namespace=GLOBAL_NS)
optree.register_pytree_node(CP, lambda o: ([o.x], None), lambda m, ch: CP(*ch), namespace=GLOBAL_NS)
optree.register_pytree_node(CN, lambda o: ((o.x,), None, None), lambda m, ch: CN(*ch), namespace=NS)

def dd(x):
    d = defaultdict(list); d['k'] = x; return d
WRAP = {
    'tuple': lambda x: (x,), 'list': lambda x: [x], 'dict': lambda x: {'k': x},
    'odict': lambda x: OrderedDict(k=x), 'ddict': dd, 'deque': lambda x: deque([x]),
    'namedtuple': lambda x: NT(x), 'structseq': lambda x: os.terminal_size((x, 0)),
    'custom_entries': CE, 'custom_plain': CP, 'custom_ns': CN,
}
EMPTY = {
    'tuple': (), 'list': [], 'dict': {}, 'odict': OrderedDict(), 'ddict': defaultdict(list), 'deque': deque(),
}
class Leaf: pass
leaf = Leaf()
wrap = WRAP[KIND]
if TERMINAL == 'leaf':
    t, n = leaf, N
else:
    t, n = EMPTY[KIND], N - 1
for _ in range(n):
    t = wrap(t)
kw = dict(none_is_leaf=NIL, namespace=NS)
res = {
    'tree_flatten': outcome(lambda: optree.tree_flatten(t, **kw)),
    'tree_flatten_with_path': outcome(lambda: optree.tree_flatten_with_path(t, **kw)),
    'tree_iter': outcome(lambda: list(optree.tree_iter(t, **kw))),
}
print('OUTCOME:', res)
if len(set(res.values())) != 1:
    violation('depth cut-off differs between the traversals: kind=%s terminal=%s containers=limit%+d none_is_leaf=%s -> %r'
              % (KIND, TERMINAL, P['delta'], NIL, res))
if TERMINAL == 'leaf':
    expected = 'ok' if N <= LIMIT else 'RecursionError'
    for name, got in res.items():
        if got != expected:
            violation('%s on a %s tree with a leaf nested in limit%+d containers: expected %s, got %s'
                      % (name, KIND, P['delta'], expected, got))
else:
    for name, got in res.items():
        if got not in ('ok', 'RecursionError') or (N - 1 <= LIMIT and got != 'ok'):
            violation('%s on %d nested empty %s containers (limit=%d): got %s' % (name, N, KIND, LIMIT, got))
if TERMINAL == 'leaf' and N <= LIMIT:
    # "trees at or below the limit work in every operation"
    leaves, spec = optree.tree_flatten(t, **kw)
    others = {
        'tree_leaves': lambda: optree.tree_leaves(t, **kw),
        'tree_structure': lambda: optree.tree_structure(t, **kw),
        'tree_paths': lambda: optree.tree_paths(t, **kw),
        'tree_accessors': lambda: optree.tree_accessors(t, **kw),
        'tree_flatten_with_accessor': lambda: optree.tree_flatten_with_accessor(t, **kw),
        'tree_unflatten': lambda: optree.tree_unflatten(spec, leaves),
        'tree_map': lambda: optree.tree_map(lambda x: x, t, **kw),
        'tree_map(rest)': lambda: optree.tree_map(lambda x, y: x, t, t, **kw),
        'tree_map_with_path': lambda: optree.tree_map_with_path(lambda p, x: x, t, **kw),
        'tree_reduce': lambda: optree.tree_reduce(lambda a, b: a, t, **kw),
        'tree_all': lambda: optree.tree_all(t, **kw),
        'tree_broadcast_prefix': lambda: optree.tree_broadcast_prefix(t, t, **kw),
        'tree_broadcast_common': lambda: optree.tree_broadcast_common(t, t, **kw),
        'spec.flatten_up_to': lambda: spec.flatten_up_to(t),
        'spec.paths': lambda: spec.paths(),
        'spec.accessors': lambda: spec.accessors(),
        'spec.children': lambda: spec.children(),
        'spec.one_level': lambda: spec.one_level(),
        'repr(spec)': lambda: repr(spec),
        'hash(spec)': lambda: hash(spec),
        'spec==spec': lambda: spec == optree.tree_structure(t, **kw),
        'spec.is_prefix': lambda: spec.is_prefix(spec),
        'spec.broadcast_to_common_suffix': lambda: spec.broadcast_to_common_suffix(spec),
        'spec.walk': lambda: spec.walk(leaves, lambda ty, md, ch: None, lambda x: None),
        'spec.traverse': lambda: spec.traverse(leaves, lambda nd: None, lambda x: None),
        'spec.transform': lambda: spec.transform(lambda s: s, lambda s: s),
        'spec.__getstate__': lambda: spec.__getstate__(),
    }
    if 'custom' not in KIND and KIND != 'namedtuple':      # classes local to this script cannot be pickled by reference
        others['pickle'] = lambda: pickle.loads(pickle.dumps(spec))
    for name, fn in others.items():
        got = outcome(fn)
        if got != 'ok':
            violation('%s fails on a %s tree nested limit%+d deep (at or below the limit): %s' % (name, KIND, P['delta'], got))
sys.exit(0)
'''


def depth_cases(tier):
    cases = []
    for kind in DEPTH_KINDS:
        for terminal in ('leaf', 'empty'):
            if terminal == 'empty' and kind not in ('tuple', 'list', 'dict', 'odict', 'ddict', 'deque'):
                continue
            for delta in (-1, 0, 1, 2):
                for nil in (False, True):
                    p = {'kind': kind, 'terminal': terminal, 'delta': delta, 'nil': nil}
                    cid = f'depth/{kind}/{terminal}/limit{delta:+d}/nil={int(nil)}'
                    cases.append((cid, _script(p, _DEPTH_BODY), p))
    return cases


def _script(params: dict, body: str) -> str:
    return PRELUDE + '\nP = ' + repr(params) + '\n' + body


# ------------------------------------------------------------------------------------------------
# B. self reference / non-termination

_SELFREF_BODY = r'''
NS = 'c16_self_ns'
WHAT, NIL = P['what'], P['nil']
CALLS = [0]

class Grow:
    """custom node whose flatten function never terminates: every call produces a fresh child node"""
    def __init__(self, n): self.n = n
def grow_flatten(g):
    CALLS[0] += 1
    return (Grow(g.n + 1),), None
optree.register_pytree_node(Grow, grow_flatten, lambda m, ch: ch[0], namespace=NS)

class Me:
    """custom node that returns itself as its only child"""
def me_flatten(m):
    CALLS[0] += 1
    return [m], None, None
optree.register_pytree_node(Me, me_flatten, lambda m, ch: ch[0], namespace=NS)

def build():
    if WHAT == 'list':
        t = []; t.append(t); return t
    if WHAT == 'list_2nd':
        t = [1]; t.append(t); return t
    if WHAT == 'dict':
        t = {}; t['k'] = t; return t
    if WHAT == 'odict':
        t = OrderedDict(); t['k'] = t; return t
    if WHAT == 'ddict':
        t = defaultdict(list); t['k'] = t; return t
    if WHAT == 'deque':
        t = deque(); t.append(t); return t
    if WHAT == 'tuple_via_list':
        a = []; t = (a,); a.append(t); return t
    if WHAT == 'dict_list_cycle':
        a = []; t = {'x': a, 'y': 1}; a.append(t); return t
    if WHAT == 'custom_grow':
        return Grow(0)
    if WHAT == 'custom_self':
        return Me()
    raise AssertionError(WHAT)

def pred(x):
    CALLS[0] += 1
    return False

kw = dict(none_is_leaf=NIL, namespace=NS)
OPS = {
    'tree_flatten': lambda t, **k: optree.tree_flatten(t, **k),
    'tree_flatten_with_path': lambda t, **k: optree.tree_flatten_with_path(t, **k),
    'tree_iter': lambda t, **k: list(optree.tree_iter(t, **k)),
}
res, counts = {}, {}
for name, op in OPS.items():
    t = build()
    res[name] = outcome(lambda: op(t, **kw))
    if WHAT.startswith('custom'):
        CALLS[0] = 0
        outcome(lambda: op(build(), **kw))
        counts[name] = CALLS[0]
    else:
        CALLS[0] = 0
        t2 = build()
        r2 = outcome(lambda: op(t2, pred, **kw))
        counts[name] = (CALLS[0], r2)
print('OUTCOME:', res, counts)
for name, got in res.items():
    if got != 'RecursionError':
        violation('%s on a self-referential / never-terminating %s: expected RecursionError, got %s' % (name, WHAT, got))
if len(set(counts.values())) != 1:
    violation('RecursionError is raised at different depths for %s: callback invocations before the error %r' % (WHAT, counts))
sys.exit(0)
'''

SELFREF = ['list', 'list_2nd', 'dict', 'odict', 'ddict', 'deque', 'tuple_via_list', 'dict_list_cycle',
           'custom_grow', 'custom_self']


def selfref_cases(tier):
    cases = []
    for what in SELFREF:
        for nil in (False, True):
            p = {'what': what, 'nil': nil}
            cases.append((f'selfref/{what}/nil={int(nil)}', _script(p, _SELFREF_BODY), p))
    return cases


# ------------------------------------------------------------------------------------------------
# C. containers mutated by a callback during traversal

_MUT_BODY = r'''
NS = 'c16_mut_ns'
TRAV, KIND, POS, MUT, M, FORM, NIL = (P[k] for k in ('trav', 'kind', 'pos', 'mut', 'm', 'form', 'nil'))

class L:
    """leaf; referenced only by the container, so a stale read hits freed memory"""
    __slots__ = ('tag', '__weakref__')
    def __init__(self, tag): self.tag = tag
    def __repr__(self): return 'L%r' % (self.tag,)

ARMED = [False]; FIRED = [0]
CALLS = {'lt': 0, 'eq': 0, 'hash': 0, 'pred': 0}
HOOK_AT = {}           # hook name -> invocation index at which the mutation happens
C = None               # the container under traversal
ORIG = []              # weak references to the original children, in traversal order

def hook(name):
    if not ARMED[0]:
        return
    CALLS[name] += 1
    if HOOK_AT.get(name) == CALLS[name] and not FIRED[0]:
        FIRED[0] = 1
        mutate()

class K:
    """dict key with user-defined hash/eq/lt; small keys collide so that lookups must call __eq__"""
    def __init__(self, n): self.n = n
    def __hash__(self):
        hook('hash'); return 7 if self.n < 50 else self.n
    def __eq__(self, o):
        hook('eq'); return isinstance(o, K) and o.n == self.n
    def __lt__(self, o):
        hook('lt')
        if not isinstance(o, K): return NotImplemented
        return self.n < o.n
    def __repr__(self): return 'K(%d)' % self.n

class Mut:
    """custom node whose flatten function mutates the parent container (a 'sibling' callback)"""
    def __init__(self, x): self.x = x
def mut_flatten(m):
    if ARMED[0] and not FIRED[0]:
        FIRED[0] = 1
        mutate()
    return (m.x,), None, ('x',)
CONTROL = TRAV == 'control'        # pure CPython: the same container, keys and mutation, optree is not even imported
if not CONTROL:
    optree.register_pytree_node(Mut, mut_flatten, lambda md, ch: Mut(*ch), namespace=NS)

KEYHOOK = POS.startswith('key_')
IS_SPECS = TRAV == 'constructor'

def new_value(tag):
    if IS_SPECS:
        return optree.treespec_leaf(none_is_leaf=NIL)
    return [L(tag)] if FORM == 'list1' else L(tag)

def make_key(i):
    return K(i) if KEYHOOK else 'k%02d' % i

def build():
    children = [new_value(i) for i in range(M)]
    if POS.startswith('flat@'):
        j = {'first': 0, 'second': 1, 'last': M - 1}[POS[5:]]
        children[j] = Mut(children[j])
    if KIND == 'list': c = list(children)
    elif KIND == 'deque': c = deque(children)
    else:
        items = [(make_key(i), ch) for i, ch in enumerate(children)]
        if KIND == 'dict': c = dict(items)
        elif KIND == 'odict': c = OrderedDict(items)
        else:
            c = defaultdict(list); c.update(items)
    return c, children

def keys_now():
    return list(C.keys())

def mutate():
    """runs inside the callback, while the engine is in the middle of traversing C"""
    seq = KIND in ('list', 'deque')
    if MUT == 'del_first':
        if seq:
            if len(C): del C[0]
        else:
            ks = keys_now()
            if ks: del C[ks[0]]
    elif MUT == 'del_last':
        if seq:
            if len(C): C.pop()
        else:
            ks = keys_now()
            if ks: del C[ks[-1]]
    elif MUT == 'del_tail':
        if KIND == 'list': del C[1:]
        elif KIND == 'deque':
            while len(C) > 1: C.pop()
        else:
            for k in keys_now()[1:]: del C[k]
    elif MUT == 'clear':
        C.clear()
    elif MUT == 'append':
        if seq: C.append(new_value('new'))
        else: C[make_key(40)] = new_value('new')
    elif MUT == 'insert_front':
        if KIND == 'list': C.insert(0, new_value('new'))
        elif KIND == 'deque': C.appendleft(new_value('new'))
        elif KIND == 'odict':
            k = make_key(41); C[k] = new_value('new'); C.move_to_end(k, last=False)
        else:
            C[make_key(41)] = new_value('new')
    elif MUT == 'grow_many':
        if seq: C.extend(new_value(('g', i)) for i in range(3000))
        else:
            for i in range(3000): C[K(100 + i) if KEYHOOK else 'g%05d' % i] = new_value(('g', i))
    elif MUT == 'replace_all':
        if seq:
            for i in range(len(C)): C[i] = new_value(('r', i))
        else:
            for k in keys_now(): C[k] = new_value(('r', 0))
    elif MUT == 'pop_and_readd':
        if seq:
            if len(C):
                x = C.pop(); C.append(new_value('re'))
        else:
            for k in keys_now():
                del C[k]; C[k] = new_value('re')
    else:
        raise AssertionError(MUT)
    gc.collect()

C, children = build()
if POS.startswith('pred@'):
    where = POS[5:]
    TARGET = C if where == 'root' else children[{'first': 0, 'second': 1, 'last': M - 1}[where]]
else:
    TARGET = None
if KEYHOOK:
    name, at = POS[4:].split('#')
    HOOK_AT[name] = int(at)

def pred(x):
    CALLS['pred'] += 1
    if x is TARGET and ARMED[0] and not FIRED[0]:
        FIRED[0] = 1
        mutate()
    return False
PRED = pred if POS.startswith('pred@') else None
del children

def is_known_leaf(x):
    return type(x) is L and repr(x).startswith('L')

def check_leaves(what, leaves):
    for x in leaves:
        if not is_known_leaf(x):
            violation('%s returned a leaf that never was in the tree: %r' % (what, type(x)))

kw = dict(none_is_leaf=NIL, namespace=NS)
snapshot_spec = None
if TRAV in ('flatten_up_to', 'map_rest', 'broadcast_prefix'):
    snapshot_spec = optree.tree_structure(C, **kw)       # not armed yet: no mutation here
    OTHER = optree.tree_unflatten(snapshot_spec, [L(('o', i)) for i in range(snapshot_spec.num_leaves)])

result = exc = None
ARMED[0] = True
try:
    if TRAV == 'flatten':
        result = optree.tree_flatten(C, PRED, **kw)
    elif TRAV == 'flatten_with_path':
        result = optree.tree_flatten_with_path(C, PRED, **kw)
    elif TRAV == 'iter':
        result = list(optree.tree_iter(C, PRED, **kw))
    elif TRAV == 'flatten_up_to':
        result = snapshot_spec.flatten_up_to(C)
    elif TRAV == 'map':
        result = optree.tree_map(lambda x, y: x, C, C, is_leaf=PRED, **kw)
    elif TRAV == 'map_rest':
        result = optree.tree_map(lambda x, y: y, OTHER, C, is_leaf=PRED, **kw)
    elif TRAV == 'broadcast_prefix':
        result = optree.tree_broadcast_prefix(OTHER, C, is_leaf=PRED, **kw)
    elif TRAV == 'constructor':
        result = optree.treespec_from_collection(C, **kw)
    elif TRAV == 'control':
        if KIND in ('list', 'deque'):
            result = [x for x in C]
        else:
            ks = list(C)                                  # what the engine does to list the keys ...
            if KIND != 'odict':
                try: ks = sorted(ks)                      # ... to order them ...
                except TypeError: pass
            result = [C[k] for k in ks]                   # ... and to fetch the values
    else:
        raise AssertionError(TRAV)
except BaseException as e:
    exc = e
ARMED[0] = False
if CONTROL:
    print('OUTCOME: control finished', flush=True)
    sys.exit(0)
print('OUTCOME:', 'fired=%d' % FIRED[0], ('exc ' + type(exc).__name__ + ': ' + str(exc)[:100]) if exc is not None else 'result')
if exc is not None:
    if null_symptom(exc):
        violation('%s of a %s mutated (%s) by callback %s: %s: %s (symptom of an invalid read inside the engine)'
                  % (TRAV, KIND, MUT, POS, type(exc).__name__, str(exc)[:200]))
    sys.exit(0)          # a Python exception is an allowed outcome
# a result: it has to be consistent
try:
    if TRAV == 'flatten':
        leaves, spec = result
        check_leaves(TRAV, leaves)
        if spec.num_leaves != len(leaves):
            violation('tree_flatten: %d leaves but treespec.num_leaves=%d' % (len(leaves), spec.num_leaves))
        back = optree.tree_unflatten(spec, leaves)
        leaves2, spec2 = optree.tree_flatten(back, **kw)
        if spec2 != spec or len(leaves2) != len(leaves) or any(a is not b for a, b in zip(leaves, leaves2)):
            violation('tree_flatten result does not round-trip: %r vs %r' % (spec, spec2))
        repr(spec); hash(spec); spec.paths(); spec.children()
    elif TRAV == 'flatten_with_path':
        paths, leaves, spec = result
        check_leaves(TRAV, leaves)
        if not (len(paths) == len(leaves) == spec.num_leaves):
            violation('tree_flatten_with_path: %d paths, %d leaves, num_leaves=%d' % (len(paths), len(leaves), spec.num_leaves))
        if any(type(p) is not tuple for p in paths):
            violation('tree_flatten_with_path: a path is not a tuple')
        if list(paths) != list(spec.paths()):
            violation('tree_flatten_with_path: paths %r differ from treespec.paths() %r' % (paths, spec.paths()))
        optree.tree_unflatten(spec, leaves)
    elif TRAV == 'iter':
        check_leaves(TRAV, result)
    elif TRAV == 'flatten_up_to':
        if len(result) != snapshot_spec.num_leaves:
            violation('flatten_up_to: %d subtrees for %d leaves' % (len(result), snapshot_spec.num_leaves))
        check_leaves(TRAV, result)
    elif TRAV in ('map', 'map_rest', 'broadcast_prefix'):
        check_leaves(TRAV, optree.tree_leaves(result, **kw))
    elif TRAV == 'constructor':
        spec = result
        if len(spec.children()) != spec.num_children:
            violation('constructor: children() has %d elements, num_children=%d' % (len(spec.children()), spec.num_children))
        repr(spec); hash(spec); spec.paths()
        optree.tree_unflatten(spec, list(range(spec.num_leaves)))
except SystemExit:
    raise
except BaseException as e:
    violation('%s of a %s mutated (%s) by callback %s returned an inconsistent result: %s: %s'
              % (TRAV, KIND, MUT, POS, type(e).__name__, str(e)[:200]))
sys.exit(0)
'''

def mutation_control_script(p: dict) -> str:
    """The same container / key class / callback position / mutation, traversed by plain Python instead of optree."""
    q = dict(p, trav='control')
    prelude = PRELUDE.replace('import optree\n', '').replace("GLOBAL_NS = getattr(optree.registry, '__GLOBAL_NAMESPACE')\n", '')
    assert 'optree' not in prelude.replace('optree.InternalError', ''), 'control prelude must not use optree'
    return prelude + '\nP = ' + repr(q) + '\n' + _MUT_BODY


MUT_TRAVS = ['flatten', 'flatten_with_path', 'iter', 'flatten_up_to', 'map', 'map_rest', 'broadcast_prefix', 'constructor']
MUT_KINDS = ['list', 'dict', 'odict', 'ddict', 'deque']
MUT_MUTS = ['del_first', 'del_last', 'del_tail', 'clear', 'append', 'insert_front', 'grow_many', 'replace_all',
            'pop_and_readd']


def mutation_cases(tier, seed):
    cases = []
    ms = (4, 8) if tier == 'quick' else (2, 4, 8, 33)
    forms = ('leaf', 'list1')
    nils = (False,) if tier == 'quick' else (False, True)
    key_ats = (1, 2, 3, 6) if tier == 'quick' else (1, 2, 3, 4, 5, 6, 8, 12, 20)
    for trav in MUT_TRAVS:
        for kind in MUT_KINDS:
            positions = []
            has_pred = trav in ('flatten', 'flatten_with_path', 'iter', 'map', 'map_rest', 'broadcast_prefix')
            if has_pred:
                positions += ['pred@root', 'pred@first', 'pred@second', 'pred@last']
            if trav != 'constructor':
                positions += ['flat@first', 'flat@second', 'flat@last']
            if kind in ('dict', 'odict', 'ddict'):
                for h in ('lt', 'eq', 'hash'):
                    if h == 'lt' and kind == 'odict':
                        continue           # OrderedDict keys are never sorted
                    positions += [f'key_{h}#{a}' for a in key_ats]
            for pos in positions:
                for mut in MUT_MUTS:
                    for m in ms:
                        for form in forms:
                            if trav == 'constructor' and form != 'leaf':
                                continue
                            for nil in nils:
                                p = {'trav': trav, 'kind': kind, 'pos': pos, 'mut': mut, 'm': m, 'form': form, 'nil': nil}
                                cid = f'mut/{trav}/{kind}/{pos}/{mut}/m={m}/{form}/nil={int(nil)}'
                                cases.append((cid, _script(p, _MUT_BODY), p))
    if tier == 'quick':
        # keep every (traversal, kind, position, mutation) combination, thin the (m, form) variants by seed
        rng = random.Random(seed)
        groups: dict = {}
        for c in cases:
            p = c[2]
            groups.setdefault((p['trav'], p['kind'], p['pos'], p['mut']), []).append(c)
        thinned = []
        for key in groups:
            g = groups[key]
            keep = [c for c in g if c[2]['m'] == 8 and c[2]['form'] == 'list1'][:1]     # the D6-shaped variant
            rest = [c for c in g if c not in keep]
            keep += rng.sample(rest, min(1, len(rest)))
            thinned += keep
        cases = thinned
    return cases


# ------------------------------------------------------------------------------------------------
# D. treespec methods with out-of-range / mismatched arguments, malformed pickle states

_ARGS_COMMON = r'''
NS = 'c16_args_ns'
class Cu:
    def __init__(self, a, b): self.a, self.b = a, b
optree.register_pytree_node(Cu, lambda c: ((c.a, c.b), 'md', ('a', 'b')), lambda m, ch: Cu(*ch), namespace=NS)
NT = namedtuple('NT', 'p q')
TREES = {
    'leaf': 1,
    'none': None,
    'empty_tuple': (),
    'tuple': (1, 2, 3),
    'list': [1, [2, 3]],
    'dict': {'b': 1, 'a': (2, 3)},
    'odict': OrderedDict(z=1, a=None),
    'ddict': defaultdict(int, {'x': 1, 'y': [2]}),
    'deque': deque([1, 2], maxlen=5),
    'namedtuple': NT(1, (2, 3)),
    'structseq': os.terminal_size((1, 2)),
    'custom': Cu(1, [2, 3]),
    'mixed': {'k': [Cu((1, None), 2), NT(3, deque([4]))], 'j': OrderedDict(q=5)},
}
def spec_of(name, nil=False):
    return optree.tree_structure(TREES[name], none_is_leaf=nil, namespace=NS)
def use(spec, announce=False):
    """exercise a treespec that the engine accepted; exceptions are fine, crashes are not"""
    nl = lambda: list(range(max(spec.num_leaves, 0)))
    for name, fn in (
            ('repr(s)', lambda: repr(spec)), ('hash(s)', lambda: hash(spec)), ('s == s', lambda: spec == spec),
            ('s.num_leaves', lambda: spec.num_leaves), ('s.num_nodes', lambda: spec.num_nodes),
            ('s.num_children', lambda: spec.num_children), ('s.kind', lambda: spec.kind), ('s.type', lambda: spec.type),
            ('s.paths()', lambda: spec.paths()), ('s.accessors()', lambda: spec.accessors()), ('s.entries()', lambda: spec.entries()),
            ('s.children()', lambda: spec.children()), ('s.child(0)', lambda: spec.child(0)), ('s.entry(0)', lambda: spec.entry(0)),
            ('s.one_level()', lambda: spec.one_level()), ('s.is_leaf()', lambda: spec.is_leaf()),
            ('s.is_one_level()', lambda: spec.is_one_level()), ('s.unflatten(leaves)', lambda: spec.unflatten(nl())),
            ('s.unflatten([])', lambda: spec.unflatten([])), ('s.walk(leaves, f_node)', lambda: spec.walk(nl(), lambda t, m, c: c, None)),
            ('s.traverse(leaves)', lambda: spec.traverse(nl(), None, None)),
            ('s.transform(f, f)', lambda: spec.transform(lambda s: s, lambda s: s)), ('s.compose(s)', lambda: spec.compose(spec)),
            ('s.broadcast_to_common_suffix(s)', lambda: spec.broadcast_to_common_suffix(spec)),
            ('s.is_prefix(s)', lambda: spec.is_prefix(spec)), ('s.is_suffix(s)', lambda: spec.is_suffix(spec)),
            ('s.flatten_up_to(tree)', lambda: spec.flatten_up_to(spec.unflatten(nl()))),
            ('pickle.dumps(s)', lambda: pickle.dumps(spec)), ('s.__getstate__()', lambda: spec.__getstate__()),
            ('len(s)', lambda: len(spec))):
        if announce:
            print('OP: ' + name, flush=True)
        outcome(fn)
'''

_INDEX_BODY = _ARGS_COMMON + r'''
spec = spec_of(P['tree'], P['nil'])
n = spec.num_children
I = eval(P['index'])
for name in ('child', 'entry'):
    try:
        r = getattr(spec, name)(I)
    except BaseException as e:
        print('OUTCOME: exc', name, type(e).__name__)
        if null_symptom(e):
            violation('treespec.%s(%r) on %r: %s: %s' % (name, I, spec, type(e).__name__, e))
        continue
    print('OUTCOME: result', name)
    if not isinstance(I, int) or not (-n <= I < n):      # bool is an int: child(True) is child(1)
        violation('treespec.%s(%r) on %r with %d children returned %r instead of raising' % (name, I, spec, n, r))
    if name == 'child':
        use(r)
        if r != spec.children()[I]:
            violation('treespec.child(%r) != children()[%r] on %r' % (I, I, spec))
sys.exit(0)
'''

INDEXES = ['0', '1', '-1', 'n - 1', 'n', 'n + 1', '-n', '-n - 1', '-n - 2', '10**6', '-10**6', '2**31', '-2**31 - 1',
           '2**62', '2**63 - 1', '-2**63', '2**63', '2**64 + 1', '-2**70', '1.0', '1.5', 'None', '"0"', 'True', 'object()']

_LEAFCOUNT_BODY = _ARGS_COMMON + r'''
spec = spec_of(P['tree'], P['nil'])
n = spec.num_leaves
for delta in (-n, -2, -1, 1, 2, 50, 5000):
    k = n + delta
    if k < 0 or k == n:
        continue
    leaves = list(range(k))
    for name, fn in (('unflatten', lambda: spec.unflatten(leaves)),
                     ('tree_unflatten', lambda: optree.tree_unflatten(spec, leaves)),
                     ('unflatten(iter)', lambda: spec.unflatten(iter(leaves))),
                     ('walk', lambda: spec.walk(leaves, lambda t, m, c: c, lambda x: x)),
                     ('traverse', lambda: spec.traverse(leaves, lambda x: x, lambda x: x))):
        got = outcome(fn)
        if got == 'ok':
            violation('%s of %r with %d leaves instead of %d returned a result' % (name, spec, k, n))
        if got.startswith('SystemError:'):
            violation('%s of %r with %d leaves instead of %d: %s' % (name, spec, k, n, got))
print('OUTCOME: exc')
sys.exit(0)
'''

_PAIR_BODY = _ARGS_COMMON + r'''
a = spec_of(P['a'], P['nil_a'])
b = optree.tree_structure(TREES[P['b']], none_is_leaf=P['nil_b'], namespace=P['ns_b'])
for name in ('compose', 'broadcast_to_common_suffix', 'is_prefix', 'is_suffix', '__eq__', '__lt__', '__le__', '__gt__', '__ge__', '__ne__'):
    try:
        r = getattr(a, name)(b)
    except BaseException as e:
        if null_symptom(e):
            violation('%r.%s(%r): SystemError %s' % (a, name, b, e))
        continue
    if isinstance(r, optree.PyTreeSpec):
        use(r)
        if name == 'compose' and r.num_leaves != a.num_leaves * b.num_leaves:
            violation('%r.compose(%r) has %d leaves' % (a, b, r.num_leaves))
        if name == 'compose' and (P['nil_a'] != P['nil_b']):
            violation('%r.compose(%r) with different none_is_leaf flags returned %r instead of raising' % (a, b, r))
# flatten_up_to / transform with mismatching arguments
for name, fn in (('flatten_up_to', lambda: a.flatten_up_to(TREES[P['b']])),
                 ('transform->other', lambda: a.transform(lambda s: b, None)),
                 ('transform->leaf other', lambda: a.transform(None, lambda s: b)),
                 ('transform->None', lambda: a.transform(lambda s: None, None)),
                 ('transform->int', lambda: a.transform(None, lambda s: 5)),
                 ('tree_transpose', lambda: optree.tree_transpose(a, b, TREES[P['a']])),
                 ('tree_map', lambda: optree.tree_map(lambda *x: x, TREES[P['a']], TREES[P['b']], namespace=NS))):
    try:
        r = fn()
    except BaseException as e:
        if null_symptom(e):
            violation('%s with %r / %r: SystemError %s' % (name, a, b, e))
        continue
    if isinstance(r, optree.PyTreeSpec):
        use(r)
print('OUTCOME: done')
sys.exit(0)
'''

_STATE_BODY = _ARGS_COMMON + r'''
base = spec_of(P['tree'], P['nil'])
state = base.__getstate__()
STATE = eval(P['state'], {'state': state, 'nodes': state[0], 'NT': NT, 'Cu': Cu, 'replace_node': None, 'OrderedDict': OrderedDict,
                          'R': lambda i, j, v: (tuple(tuple(v if (jj == j) else x for jj, x in enumerate(nd)) if ii == (i % len(state[0])) else nd
                                                      for ii, nd in enumerate(state[0])), state[1], state[2])})
fresh = optree.PyTreeSpec.__new__(optree.PyTreeSpec)
print('OP: __setstate__', flush=True)
try:
    fresh.__setstate__(STATE)
except BaseException as e:
    print('OUTCOME: exc', type(e).__name__, str(e)[:80])
    if null_symptom(e):
        violation('__setstate__(%s) on %r: SystemError %s' % (P['state'], base, e))
    sys.exit(0)
print('OUTCOME: accepted')
use(fresh, announce=True)        # accepted: every later use must be memory safe
sys.exit(0)
'''

_UNINIT_BODY = _ARGS_COMMON + r'''
spec = spec_of('tuple')
if P['cls'] == 'PyTreeSpec':
    fresh = optree.PyTreeSpec.__new__(optree.PyTreeSpec)
else:
    fresh = optree._C.PyTreeIter.__new__(optree._C.PyTreeIter)
got = outcome(eval('lambda: ' + P['expr'], {'fresh': fresh, 'spec': spec, 'optree': optree, 'pickle': pickle}))
print('OUTCOME:', got)
if got == 'ok' and P.get('must_raise', True):
    violation('%s on an instance created by %s.__new__ (never initialised) returned a result' % (P['expr'], P['cls']))
sys.exit(0)
'''

UNINIT_EXPRS = (
    # (class, entry point class, expression)
    [('PyTreeSpec', 'method', e) for e in (
        'fresh.num_leaves', 'repr(fresh)', 'fresh.num_nodes', 'fresh.kind', 'fresh.namespace', 'hash(fresh)', 'len(fresh)',
        'fresh == spec', 'fresh.unflatten([1])', 'fresh.paths()', 'fresh.children()', 'fresh.child(0)', 'fresh.compose(spec)',
        'fresh.__getstate__()', 'pickle.dumps(fresh)', 'fresh.flatten_up_to((1, 2, 3))', 'fresh.walk([1, 2, 3])',
        'fresh.transform(None, None)')]
    + [('PyTreeSpec', 'other', e) for e in (
        'spec.compose(fresh)', 'spec == fresh', 'spec.broadcast_to_common_suffix(fresh)', 'spec.is_prefix(fresh)',
        'optree.tree_unflatten(fresh, [1])', 'optree.treespec_tuple([fresh])', 'optree.tree_transpose(spec, fresh, (1, 2, 3))',
        'optree.treespec_from_collection({"a": fresh})')]
    + [('PyTreeIter', 'iter', e) for e in ('next(fresh)', 'list(fresh)', '[x for x in fresh]', 'fresh.__next__()')]
)


def state_mutations():
    """expressions (evaluated in the child) producing malformed pickle states from a valid `state`"""
    out = ['()', '(nodes,)', '(nodes, state[1])', 'state + (None,)', 'None', '5', '"abc"', 'list(state)', 'b"xyz"',
           '(None, state[1], state[2])', '(5, state[1], state[2])', '((), state[1], state[2])',
           '(list(nodes), state[1], state[2])', '("abc", False, "")', '((None,), False, "")', '((5,), False, "")',
           '(((),), False, "")', '(nodes, None, state[2])', '(nodes, "x", state[2])', '(nodes, 2, state[2])',
           '(nodes, state[1], None)', '(nodes, state[1], 5)', '(nodes, state[1], b"ns")', '(nodes, state[1], "other_ns")',
           '(nodes + nodes, state[1], state[2])', '(nodes[:-1], state[1], state[2])', '(nodes[1:], state[1], state[2])',
           '(nodes[::-1], state[1], state[2])', '(nodes[-1:], state[1], state[2])', '(nodes * 50, state[1], state[2])',
           '(nodes, not state[1], state[2])']
    # node tuple sizes
    for size in (0, 1, 5, 6, 7, 9, 12):
        out.append(f'(tuple((nd + (None,) * 12)[:{size}] for nd in nodes), state[1], state[2])')
    # every field of the first / last / middle node replaced by junk or inconsistent numbers
    junk = ['None', '"x"', '-1', '0', '1', '2', '3', '10**9', '2**63', '-2**63', '1.5', 'object()', '[]', '()', '("a",)',
            'int', 'NT', 'Cu', '["a", "b"]', '["b", "a"]', '["a"]', '["a", "a"]', '[[]]', '(None, ["x", "y"])', '(int, None)']
    for i in (0, -1, -2, 1):
        for j in range(8):
            for v in junk:
                out.append(f'R({i}, {j}, {v})')
        for kind in range(-1, 13):
            out.append(f'R({i}, 0, {kind})')
    return out


STATE_FIELDS = ['kind', 'arity', 'node_data', 'node_entries', 'custom_type', 'num_leaves', 'num_nodes', 'original_keys']


def state_mutation_class(m: str) -> str:
    """'R(-1, 1, -1)' -> 'node field arity: negative number' (independent of the node index and of the treespec)"""
    if not m.startswith('R('):
        return 'outer structure of the state'
    i, j, v = m[2:-1].split(', ', 2)
    field = STATE_FIELDS[int(j)]
    if field == 'kind':
        return 'node field kind: another kind number'
    try:
        n = eval(v, {'__builtins__': {}})
    except Exception:
        n = None
    if isinstance(n, int) and not isinstance(n, bool):
        cat = 'negative number' if n < 0 else ('huge number' if n >= 10 ** 6 else 'small number')
    elif v == 'None':
        cat = 'None'
    else:
        cat = 'object of another type'
    return f'node field {field}: {cat}'


def args_cases(tier, seed):
    cases = []
    trees = ['leaf', 'none', 'empty_tuple', 'tuple', 'list', 'dict', 'odict', 'ddict', 'deque', 'namedtuple', 'structseq',
             'custom', 'mixed']
    for t in trees:
        for nil in (False, True):
            for ix in INDEXES:
                p = {'tree': t, 'nil': nil, 'index': ix}
                cases.append((f'args/index/{t}/nil={int(nil)}/{ix}', _script(p, _INDEX_BODY), p))
            p = {'tree': t, 'nil': nil}
            cases.append((f'args/leafcount/{t}/nil={int(nil)}', _script(p, _LEAFCOUNT_BODY), p))
    pair_trees = trees if tier != 'quick' else ['leaf', 'none', 'tuple', 'dict', 'ddict', 'namedtuple', 'custom', 'mixed']
    for a in pair_trees:
        for b in pair_trees:
            for nil_a, nil_b, ns_b in ((False, False, 'c16_args_ns'), (False, True, 'c16_args_ns'), (True, False, 'c16_args_ns'),
                                       (False, False, ''), (False, False, 'unknown_ns'), (True, True, '')):
                p = {'a': a, 'b': b, 'nil_a': nil_a, 'nil_b': nil_b, 'ns_b': ns_b}
                cases.append((f'args/pair/{a}/{b}/{int(nil_a)}{int(nil_b)}/{ns_b or "global"}', _script(p, _PAIR_BODY), p))
    muts = state_mutations()
    state_trees = ['leaf', 'tuple', 'dict', 'ddict', 'namedtuple', 'custom', 'mixed'] if tier == 'quick' else trees
    for t in state_trees:
        ms = muts
        if tier == 'quick':
            rng = random.Random(f'{seed}/{t}')
            fixed = [m for m in muts if not m.startswith('R(')]
            root = [m for m in muts if m.startswith('R(-1,')]
            rs = [m for m in muts if m.startswith('R(') and not m.startswith('R(-1,')]
            ms = fixed + root + rng.sample(rs, 60)
        for m in ms:
            p = {'tree': t, 'nil': False, 'state': m, 'mutation_class': state_mutation_class(m)}
            cases.append((f'args/state/{t}/{m}', _script(p, _STATE_BODY), p))
    return cases


def uninit_cases(tier):
    cases = []
    for cls, cat, expr in UNINIT_EXPRS:
        p = {'cls': cls, 'expr': expr, 'must_raise': True, 'entry_point': cat}
        cases.append((f'uninit/{cls}/{expr}', _script(p, _UNINIT_BODY), p))
    return cases


# ------------------------------------------------------------------------------------------------
# E. arbitrary objects for every parameter of every public function / treespec method

CONFUSIONS = ['None', '0', '-1', '2**70', '1.5', "'str'", "b'bytes'", 'object()', 'int', 'type', '(i for i in range(3))',
              '[]', '{}', '(1, 2)', '[1, 2]', "{'a': 1}", 'lambda *a, **k: None', 'optree', 'NotImplemented', 'Ellipsis',
              'SPEC', 'SPEC2', 'iter([SPEC])', 'float("nan")', 'True', 'Exception("x")', 'optree.PyTreeSpec', 'L1', 'TREE']

_CONF_BODY = r'''
import inspect, contextlib
NS = 'c16_conf_ns'
class Cu:
    def __init__(self, a, b): self.a, self.b = a, b
optree.register_pytree_node(Cu, lambda c: ((c.a, c.b), 'md', ('a', 'b')), lambda m, ch: Cu(*ch), namespace=NS)
NT = namedtuple('NT', 'p q')
class Leafy: pass
L1 = Leafy()
TREE = {'k': [Cu((1, None), 2), NT(3, deque([4]))], 'j': OrderedDict(q=5)}
SPEC = optree.tree_structure(TREE, namespace=NS)
SPEC2 = optree.tree_structure((0, 0))
LEAVES = optree.tree_leaves(TREE, namespace=NS)
class Fresh: pass
BASE = {
    'tree': TREE, 'other_tree': TREE, 'prefix_tree': TREE, 'full_tree': TREE, 'rests': (TREE,), 'treespec': SPEC,
    'other_treespec': SPEC, 'inner_treespec': SPEC2, 'outer_treespec': SPEC, 'leaves': LEAVES, 'iterable': [SPEC2, SPEC2],
    'func': (lambda *a, **k: a[0]), 'is_leaf': None, 'none_is_leaf': False, 'namespace': NS, 'obj': NT(1, 2), 'cls': Fresh,
    'strict': False, 'mapping': {'a': SPEC2}, 'kwargs': {}, 'default': 0, 'key': None, 'index': 0, 'path_entry_type': optree.AutoEntry,
    'sentinel': 0, 'initial': 0, 'start': 0, 'f_node': None, 'f_leaf': None, 'namedtuple': NT(SPEC2, SPEC2),
    'default_factory': list, 'maxlen': None, 'structseq': os.terminal_size((SPEC2, SPEC2)), 'collection': [SPEC2],
    'flatten_func': (lambda o: ((), None)), 'unflatten_func': (lambda m, c: Fresh()), 'mode': True, 'self': SPEC,
    'state': SPEC.__getstate__(), 'other': SPEC, 'tree_for_transpose': None,
}
SPEC_METHODS = {     # pybind11 methods have no introspectable signature: (positional parameter names)
    'unflatten': ['leaves'], 'flatten_up_to': ['full_tree'], 'broadcast_to_common_suffix': ['other'],
    'transform': ['f_node', 'f_leaf'], 'compose': ['inner_treespec'], 'traverse': ['leaves', 'f_node', 'f_leaf'],
    'walk': ['leaves', 'f_node', 'f_leaf'], 'paths': [], 'accessors': [], 'entries': [], 'entry': ['index'],
    'children': [], 'child': ['index'], 'one_level': [], 'is_leaf': [], 'is_one_level': [], 'is_prefix': ['other'],
    'is_suffix': ['other'], '__eq__': ['other'], '__ne__': ['other'], '__lt__': ['other'], '__le__': ['other'],
    '__gt__': ['other'], '__ge__': ['other'], '__setstate__': ['state'],
}
C_FUNCS = {          # private engine entry points reachable as optree._C.<name>
    'flatten': ['tree', 'is_leaf', 'none_is_leaf', 'namespace'], 'flatten_with_path': ['tree', 'is_leaf', 'none_is_leaf', 'namespace'],
    'make_leaf': ['none_is_leaf', 'namespace'], 'make_none': ['none_is_leaf', 'namespace'],
    'make_from_collection': ['collection', 'none_is_leaf', 'namespace'], 'is_leaf': ['tree', 'is_leaf', 'none_is_leaf', 'namespace'],
    'all_leaves': ['iterable', 'is_leaf', 'none_is_leaf', 'namespace'], 'PyTreeIter': ['tree', 'is_leaf', 'none_is_leaf', 'namespace'],
    'is_dict_insertion_ordered': ['namespace', 'mode'],
}
FUNC, PARAM = P['func'], P['param']
VALUE = eval(P['value'])
def consume(r):
    if hasattr(r, '__enter__') and hasattr(r, '__exit__'):
        with r: pass
    elif hasattr(r, '__next__'):
        for _, x in zip(range(1000), r): pass
    elif isinstance(r, optree.PyTreeSpec):
        repr(r); hash(r); r.paths(); r.unflatten(list(range(r.num_leaves)))
    else:
        repr(r)
def call():
    if FUNC.startswith('spec.'):
        name = FUNC[5:]
        params = SPEC_METHODS[name]
        target = pickle.loads(pickle.dumps(SPEC2)) if name == '__setstate__' else SPEC
        if PARAM == 'self':
            return getattr(optree.PyTreeSpec, name)(VALUE, *[BASE[q] for q in params])
        return getattr(target, name)(*[VALUE if q == PARAM else BASE[q] for q in params])
    if FUNC.startswith('_C.'):
        name = FUNC[3:]
        params = C_FUNCS[name]
        return getattr(optree._C, name)(*[VALUE if q == PARAM else BASE[q] for q in params])
    f = getattr(optree, FUNC)
    sig = inspect.signature(f)
    args, kwargs = [], {}
    for q in sig.parameters.values():
        v = VALUE if q.name == PARAM else BASE[q.name]
        if q.name == 'rests' and q.name != PARAM and FUNC.startswith('tree_transpose'):
            v = ()
        if q.kind is q.VAR_POSITIONAL:
            args.extend(v if isinstance(v, tuple) and q.name != PARAM else [v])
        elif q.kind is q.VAR_KEYWORD:
            if q.name == PARAM:
                kwargs['zz'] = v
        elif q.kind is q.KEYWORD_ONLY:
            kwargs[q.name] = v
        else:
            args.append(v)
    return f(*args, **kwargs)
try:
    consume(call())
    print('OUTCOME: result')
except BaseException as e:
    print('OUTCOME: exc', type(e).__name__, str(e)[:80])
    if null_symptom(e):
        violation('%s(%s=%s): SystemError: %s' % (FUNC, PARAM, P['value'], e))
sys.exit(0)
'''


def confusion_cases(tier, seed):
    cases = []
    funcs = []
    for n in optree.__all__:
        o = getattr(optree, n)
        if inspect.isclass(o) or not callable(o):
            continue
        try:
            sig = inspect.signature(o)
        except (TypeError, ValueError):
            continue
        funcs.append((n, [q.name for q in sig.parameters.values()]))
    spec_methods = {
        'unflatten': ['leaves'], 'flatten_up_to': ['full_tree'], 'broadcast_to_common_suffix': ['other'],
        'transform': ['f_node', 'f_leaf'], 'compose': ['inner_treespec'], 'traverse': ['leaves', 'f_node', 'f_leaf'],
        'walk': ['leaves', 'f_node', 'f_leaf'], 'paths': [], 'accessors': [], 'entries': [], 'entry': ['index'],
        'children': [], 'child': ['index'], 'one_level': [], 'is_leaf': [], 'is_one_level': [], 'is_prefix': ['other'],
        'is_suffix': ['other'], '__eq__': ['other'], '__ne__': ['other'], '__lt__': ['other'], '__le__': ['other'],
        '__gt__': ['other'], '__ge__': ['other'], '__setstate__': ['state'],
    }
    for m, ps in spec_methods.items():
        funcs.append(('spec.' + m, ['self'] + ps))
    c_funcs = {
        'flatten': ['tree', 'is_leaf', 'none_is_leaf', 'namespace'], 'flatten_with_path': ['tree', 'is_leaf', 'none_is_leaf', 'namespace'],
        'make_leaf': ['none_is_leaf', 'namespace'], 'make_none': ['none_is_leaf', 'namespace'],
        'make_from_collection': ['collection', 'none_is_leaf', 'namespace'], 'is_leaf': ['tree', 'is_leaf', 'none_is_leaf', 'namespace'],
        'all_leaves': ['iterable', 'is_leaf', 'none_is_leaf', 'namespace'], 'PyTreeIter': ['tree', 'is_leaf', 'none_is_leaf', 'namespace'],
    }
    for m, ps in c_funcs.items():
        funcs.append(('_C.' + m, ps))
    for fname, params in funcs:
        for prm in params:
            for v in CONFUSIONS:
                p = {'func': fname, 'param': prm, 'value': v}
                cases.append((f'conf/{fname}/{prm}/{v}', _script(p, _CONF_BODY), p))
    if tier == 'quick':
        # every (function, parameter) pair with a seeded third of the confusion values (None/object()/generator always)
        rng = random.Random(seed)
        always = {'None', 'object()', '(i for i in range(3))', 'int', "'str'", '0', 'SPEC2'}
        cases = [c for c in cases if c[2]['value'] in always or rng.random() < 0.2]
    return cases


# ------------------------------------------------------------------------------------------------
# F. deep treespecs (compose doubling)

_DEEP_BODY = r'''
NS = 'c16_deep_ns'
KIND, K, OP = P['kind'], P['k'], P['op']
LIMIT = optree.MAX_RECURSION_DEPTH
class Cu:
    def __init__(self, x): self.x = x
optree.register_pytree_node(Cu, lambda c: ((c.x,), None, ('x',)), lambda m, ch: Cu(*ch), namespace=NS)
NT = namedtuple('NT', 'only')
leaf = optree.treespec_leaf()
if KIND == 'custom':
    s = optree.tree_structure(Cu(0), namespace=NS)
else:
    s = {
        'tuple': lambda: optree.treespec_tuple([leaf]), 'list': lambda: optree.treespec_list([leaf]),
        'dict': lambda: optree.treespec_dict({'k': leaf}), 'odict': lambda: optree.treespec_ordereddict({'k': leaf}),
        'ddict': lambda: optree.treespec_defaultdict(list, {'k': leaf}), 'deque': lambda: optree.treespec_deque([leaf]),
        'namedtuple': lambda: optree.treespec_namedtuple(NT(leaf)),
    }[KIND]()
for _ in range(K):
    s = s.compose(s)
DEPTH = 2 ** K
assert s.num_nodes == DEPTH + 1 and s.num_leaves == 1, (s.num_nodes, s.num_leaves)
def do():
    if OP == 'paths': return len(s.paths()[0])
    if OP == 'accessors': return len(s.accessors()[0])
    if OP == 'broadcast_to_common_suffix': return s.broadcast_to_common_suffix(s).num_nodes
    if OP == 'broadcast_leaf': return optree.treespec_leaf().broadcast_to_common_suffix(s).num_nodes
    if OP == 'repr': return len(repr(s))
    if OP == 'hash': return hash(s)
    if OP == 'eq': return s == s.compose(optree.treespec_leaf())
    if OP == 'is_prefix': return s.is_prefix(s), s.is_suffix(s)
    if OP == 'pickle': return pickle.loads(pickle.dumps(s)).num_nodes if KIND not in ('custom', 'namedtuple') else len(s.__getstate__()[0])
    if OP == 'children': return len(s.children()), s.child(0).num_nodes, s.one_level().num_nodes, len(s.entries())
    if OP == 'unflatten': return type(s.unflatten([1]))
    if OP == 'unflatten_flatten':
        t = s.unflatten([1]); return optree.tree_flatten(t, namespace=NS)
    if OP == 'unflatten_up_to':
        t = s.unflatten([1]); return len(s.flatten_up_to(t))
    if OP == 'walk': return type(s.walk([1], lambda t, m, c: 0, lambda x: 0))
    if OP == 'traverse': return type(s.traverse([1], lambda n: 0, lambda x: 0))
    if OP == 'transform': return s.transform(lambda x: x, lambda x: x).num_nodes
    if OP == 'transform_none': return s.transform(None, None).num_nodes
    if OP == 'compose': return s.compose(s).num_nodes
    if OP == 'constructor': return optree.treespec_tuple([s, s]).num_nodes
    if OP == 'del':
        t = s.unflatten([1]); del t; gc.collect(); return None
    raise AssertionError(OP)
got = outcome(do)
print('OUTCOME:', got)
if DEPTH <= LIMIT and got != 'ok':
    violation('%s on a %s treespec of depth %d (limit %d) fails: %s' % (OP, KIND, DEPTH, LIMIT, got))
if got.startswith('SystemError:'):
    violation('%s on a %s treespec of depth %d: %s' % (OP, KIND, DEPTH, got))
sys.exit(0)
'''

# CPython itself overflows the C stack when it deallocates some deeply nested containers (types whose tp_dealloc does not
# take part in the "trashcan", e.g. defaultdict and deque): the control builds the same nesting without optree.
_CONTROL_BODY = r'''
import sys, os
from collections import OrderedDict, defaultdict, deque, namedtuple
KIND, K = P['kind'], P['k']
NT = namedtuple('NT', 'only')
class Cu:
    def __init__(self, x): self.x = x
mk = {'tuple': lambda x: (x,), 'list': lambda x: [x], 'dict': lambda x: {'k': x}, 'odict': lambda x: OrderedDict(k=x),
      'ddict': lambda x: defaultdict(list, k=x), 'deque': lambda x: deque([x]), 'namedtuple': NT, 'custom': Cu}[KIND]
t = 1
for _ in range(2 ** K):
    t = mk(t)
del t
sys.exit(0)
'''
MATERIALIZING_OPS = ('unflatten', 'unflatten_flatten', 'unflatten_up_to', 'del', 'traverse')

DEEP_OPS = ['paths', 'accessors', 'broadcast_to_common_suffix', 'broadcast_leaf', 'repr', 'hash', 'eq', 'is_prefix', 'pickle',
            'children', 'unflatten', 'unflatten_flatten', 'unflatten_up_to', 'walk', 'traverse', 'transform', 'transform_none',
            'compose', 'constructor', 'del']


def deep_cases(tier):
    if tier == 'quick':
        kinds, ks = ['tuple', 'dict', 'custom'], [9, 10, 14, 18]
    else:
        kinds, ks = ['tuple', 'list', 'dict', 'odict', 'ddict', 'deque', 'namedtuple', 'custom'], [8, 9, 10, 11, 12, 14, 16, 18, 20]
    cases = []
    for kind in kinds:
        for k in ks:
            for op in DEEP_OPS:
                if op == 'repr' and k > 14:
                    continue        # building the text is quadratic in the depth (no recursion involved): only slow
                p = {'kind': kind, 'k': k, 'op': op}
                cases.append((f'deep/{kind}/2^{k}/{op}', _script(p, _DEEP_BODY), p))
    return cases


# ------------------------------------------------------------------------------------------------
# classification of violations -> stable finding keys

def _key_for(cid: str, p: dict, o: U.CaseOutcome) -> str:
    sect = cid.split('/', 1)[0]
    how = {'crash': 'crash', 'timeout': 'hang', 'violation': 'violation', 'harness': 'harness'}[o.status]
    if sect == 'depth':
        if o.status == 'violation':
            if 'differs between' in o.detail:
                return 'C16.depth_cutoff_differs_between_traversals'
            if 'at or below the limit' in o.detail:
                return 'C16.operation_fails_at_or_below_limit'
            return 'C16.depth_limit_wrong_outcome'
        return f'C16.depth_{how}'
    if sect == 'selfref':
        if o.status == 'violation':
            return 'C16.selfref_different_depths' if 'different depths' in o.detail else 'C16.selfref_no_recursion_error'
        return f'C16.selfref_{how}'
    if sect == 'mut':
        kind = {'list': 'list', 'deque': 'deque'}.get(p['kind'], 'dict')
        shrink = p['mut'] in ('del_first', 'del_last', 'del_tail', 'clear', 'pop_and_readd')
        what = 'shrunk' if shrink else ('replaced' if p['mut'] == 'replace_all' else 'grown')
        if o.status == 'crash':
            return f'C16.{kind}_{what}_during_traversal'
        if o.status == 'violation':
            if 'symptom of an invalid read' in o.detail:
                return f'C16.{kind}_{what}_during_traversal_invalid_read'
            return f'C16.{kind}_{what}_during_traversal_inconsistent_result'
        return f'C16.mutation_{how}'
    if sect == 'args':
        sub = cid.split('/')[1]
        if sub == 'state':
            return f'C16.malformed_pickle_state_{how}'
        if sub == 'index':
            return f'C16.child_entry_index_{how}'
        if sub == 'leafcount':
            return f'C16.wrong_leaf_count_{how}'
        return f'C16.mismatched_treespec_arguments_{how}'
    if sect == 'uninit':
        return 'C16.uninitialized_instance'
    if sect == 'conf':
        return f'C16.argument_confusion_{how}'
    if sect == 'deep':
        if o.status == 'crash':
            return 'C16.deep_treespec_stack_overflow'
        if o.status == 'violation' and 'fails' in o.detail and 'limit' in o.detail:
            return 'C16.operation_fails_at_or_below_limit'
        return f'C16.deep_treespec_{how}'
    return f'C16.{sect}_{how}'


def run(tier: str, seed: int) -> BoundedReport:
    t0 = time.time()
    rep = BoundedReport(name='c16_safety')
    sink = U.FindingSink(per_key=5)
    notes = []
    sections = [
        ('depth', depth_cases(tier), dict(batch_size=12, timeout_per_case=120.0, batch_timeout=600.0)),
        ('selfref', selfref_cases(tier), dict(batch_size=5, timeout_per_case=120.0, batch_timeout=600.0)),
        ('mut', mutation_cases(tier, seed), dict(batch_size=80, timeout_per_case=30.0, batch_timeout=600.0)),
        ('args', args_cases(tier, seed), dict(batch_size=120, timeout_per_case=30.0, batch_timeout=600.0)),
        ('conf', confusion_cases(tier, seed), dict(batch_size=150, timeout_per_case=30.0, batch_timeout=600.0)),
    ]
    stats = {}
    samples = []
    distinct = set()
    total = 0
    # the deep treespec cases may overflow the stack: one child each, run concurrently with the batches
    deep = deep_cases(tier)

    def run_deep(case):
        cid, code, p = case
        o = U.run_case_alone(code, timeout=180.0 if tier == 'quick' else 600.0)
        o.cid = cid
        return o

    uninit_seen: dict = {}
    state_classes_seen: set = set()
    # one pool for everything: batches of the sections A-E and the single-case children of section F
    jobs = []
    for name, cases, kw in sections:
        bs = kw.pop('batch_size')
        for i in range(0, len(cases), bs):
            jobs.append((name, i, [(cid, code) for cid, code, _ in cases[i:i + bs]], kw))
    for i, case in enumerate(deep):
        jobs.append(('deep', i, case, None))
    # control: which (kind, depth) cannot even be built and freed by CPython alone?
    controls = sorted({(p['kind'], p['k']) for _, _, p in deep})
    ctl = U.pmap(lambda kk: (kk, U.run_child('P = ' + repr({'kind': kk[0], 'k': kk[1]}) + _CONTROL_BODY, timeout=300.0)), controls)
    unsafe = sorted(kk for kk, r in ctl if r.rc != 0)
    if unsafe:
        notes.append('CPython alone crashes when it frees these nestings built without optree (their tp_dealloc recursion is not '
                     'bounded), so operations that materialise such a tree are skipped for them: '
                     + ', '.join(f'{k} 2^{d}' for k, d in unsafe))
        deep = [c for c in deep if not ((c[2]['kind'], c[2]['k']) in unsafe and c[2]['op'] in MATERIALIZING_OPS)]
        jobs = [j for j in jobs if j[0] != 'deep']
        for i, case in enumerate(deep):
            jobs.append(('deep', i, case, None))
    # reading an uninitialised instance is undefined behaviour whose symptom depends on the state of the heap:
    # one fresh child per case keeps the observation deterministic
    uninit = uninit_cases(tier)
    for i, case in enumerate(uninit):
        jobs.append(('uninit', i, case, None))
    # long jobs first
    jobs.sort(key=lambda j: {'deep': 0, 'depth': 1, 'selfref': 1}.get(j[0], 2))

    def run_job(job):
        name, i, payload, kw = job
        if name in ('deep', 'uninit'):
            return name, i, [run_deep(payload)]
        return name, i, U.run_batch(payload, **kw)

    done = U.pmap(run_job, jobs, workers=U.MAX_WORKERS)
    by_section: dict = {}
    for name, i, outs in done:
        by_section.setdefault(name, []).append((i, outs))
    all_results = []
    for name, cases, _ in sections + [('uninit', uninit, None), ('deep', deep, None)]:
        outs = [o for _, os_ in sorted(by_section.get(name, []), key=lambda x: x[0]) for o in os_]
        all_results.append((name, cases, outs))

    # control for crashes that happen while CPython itself iterates / indexes the user's container inside a key callback:
    # if plain Python (no optree imported) dies on the same container, keys and mutation, the crash is CPython's
    control_cache: dict = {}
    cpython_crashes = []
    for name, cases, outs in all_results:
        if name != 'mut':
            continue
        todo = [(c, o) for c, o in zip(cases, outs) if o.status == 'crash' and c[2]['pos'].startswith('key_')]
        keys = sorted({json.dumps({k: v for k, v in c[2].items() if k not in ('trav', 'nil')}, sort_keys=True) for c, _ in todo})
        ctl = U.pmap(lambda k: (k, U.run_child(mutation_control_script(dict(json.loads(k), trav='control', nil=False)), timeout=60.0)), keys)
        control_cache = {k: r for k, r in ctl}
        for c, o in todo:
            k = json.dumps({kk: v for kk, v in c[2].items() if kk not in ('trav', 'nil')}, sort_keys=True)
            if control_cache[k].crashed:
                o.status = 'ok'
                o.detail = 'attributed to CPython'
                cpython_crashes.append(c[0])
    if cpython_crashes:
        kinds = sorted({(c.split('/')[2], c.split('/')[3].split('#')[0], c.split('/')[4]) for c in cpython_crashes})
        notes.append(f'{len(cpython_crashes)} mutation cases crash, but the control (the same container, key class and mutation traversed by '
                     'plain Python, optree not imported: list(c), sorted(keys), c[k]) crashes CPython as well; they are attributed '
                     'to CPython and are not findings: ' + ', '.join('/'.join(k) for k in kinds[:12]))

    for name, cases, outs in all_results:
        st = {'ok': 0, 'violation': 0, 'crash': 0, 'timeout': 0, 'harness': 0}
        for (cid, code, p), o in zip(cases, outs):
            total += 1
            st[o.status] += 1
            distinct.add(cid)
            if o.status == 'ok':
                continue
            key = _key_for(cid, p, o)
            if o.status == 'harness':
                key = 'C16.unexpected_exception'
            what = f'{cid}: {o.status} ({U.short(o.detail, 400)})'
            if key == 'C16.uninitialized_instance' and o.status not in ('crash', 'timeout'):
                continue        # the garbage happened to look like an empty object in this process: not observable as a violation
            if key == 'C16.uninitialized_instance':
                # stable texts, at most two per entry point class (method of the instance / instance as argument / iterator)
                n_cat = uninit_seen.get(p['entry_point'], 0)
                uninit_seen[p['entry_point']] = n_cat + 1
                if n_cat >= (1 if p['cls'] == 'PyTreeIter' else 2):
                    sink.counts[key] = sink.counts.get(key, 0) + 1
                    continue
                # pybind11 hands the method a lazily allocated, never constructed object: what the read of that garbage does
                # depends on the heap, so the text names the entry point (the exact expression is in data / script)
                opname = '__next__' if p['cls'] == 'PyTreeIter' else p['expr']
                if o.status == 'crash':
                    what = f"uninitialized {p['cls']} instance: {opname} crashed with signal {U.signum(o.detail)}"
                elif o.status == 'timeout':
                    what = f"uninitialized {p['cls']} instance: {opname} hangs"
                else:
                    what = f"uninitialized {p['cls']} instance: {opname} returned a result instead of raising"
                sink.add(Finding(key=key, what=what, script=code, data={'case': cid, 'params': p, 'status': o.status}), cap=6)
                continue
            if key == 'C16.malformed_pickle_state_crash' and o.confirmed_alone is not False:
                cls = p['mutation_class']
                if cls in state_classes_seen or len(state_classes_seen) >= 8:
                    sink.counts[key] = sink.counts.get(key, 0) + 1
                    continue
                state_classes_seen.add(cls)
                what = (f"malformed pickle state ({cls}; state expression {p['state']} on the state of "
                        f"tree_structure of the '{p['tree']}' tree): {o.last_op or 'a treespec operation'} crashed with signal {U.signum(o.detail)}")
                sink.add(Finding(key=key, what=what, script=code, data={'case': cid, 'params': p, 'status': o.status}), cap=8)
                continue
            if o.confirmed_alone is False:
                what += ' [crashed inside a batch of cases, not reproduced when run alone: earlier cases of the batch may have corrupted memory]'
            script = U.watchdog_script(code, 120.0) if o.status == 'timeout' else code
            sink.add(Finding(key=key, what=what, script=script, data={'case': cid, 'params': p, 'status': o.status,
                                                                        'confirmed_alone': o.confirmed_alone}))
        stats[name] = st
        if cases:
            samples.append(cases[len(cases) // 2][0])
    rep.evaluations = total
    rep.distinct_nontrivial = len(distinct)
    rep.rule = ('one evaluation = one child-process case (a script with one concrete input) whose exit status is the oracle: '
                'Python exception or a self-consistent result = held; death by signal, hang, SystemError/InternalError as symptom of an '
                'invalid read, or an inconsistent result = violation. Every case is non-trivial by construction (depth at the limit, '
                'a mutation inside a callback, an out-of-range or ill-typed argument, a compose-deepened treespec).')
    rep.scope = ('A depth: 11 node kinds x {leaf, empty} terminal x limit-1..limit+2 x none_is_leaf, three traversals + 28 other operations at/below the limit; '
                 'B self-reference: 10 shapes x none_is_leaf x {with, without predicate}; '
                 f'C mutation: {len(MUT_TRAVS)} traversals x 5 container kinds x callback positions (predicate on root/1st/2nd/last child, '
                 'custom flatten of the 1st/2nd/last sibling, key __lt__/__eq__/__hash__ at the j-th call) x 9 mutations x sizes x child forms'
                 + (' (quick: 2 size/form variants per combination, seeded)' if tier == 'quick' else '') + '; '
                 'D arguments: child/entry with 25 indexes x 13 treespecs x none_is_leaf, wrong leaf counts, pairs of treespecs with '
                 'mismatched flags/namespaces, malformed __setstate__ states (sizes, types, kinds, arity/num_leaves/num_nodes), '
                 'instances created by __new__ only; '
                 f'E confusion: every parameter of every public function, treespec method and engine entry point x {len(CONFUSIONS)} objects'
                 + (' (quick: seeded subset of the objects)' if tier == 'quick' else '') + '; '
                 'F deep treespecs: compose-doubling to depth 2^k x kinds x 20 operations. '
                 + '; '.join(f'{n}: {sum(s.values())} cases {s}' for n, s in stats.items()))
    rep.exhaustive = tier != 'quick'
    rep.samples = samples[:6]
    rep.findings = sink.findings()
    notes.append('sanitizers (ASan/UBSan) were NOT used: out-of-bounds or freed reads that happen to return a plausible object are '
                 'only caught when they crash, raise SystemError/InternalError, or return an object that never was in the tree; '
                 'the thorough tier enlarges the enumeration instead')
    notes.append('the clause "never an out-of-bounds or null read" is therefore only checked through its observable symptoms')
    notes.append('finding counts: ' + (sink.summary() or 'none'))
    rep.notes = '; '.join(notes)
    rep.wall_s = round(time.time() - t0, 2)
    return rep
