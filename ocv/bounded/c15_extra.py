"""C15 bounded monitor, part 2: the user's *warnings filter* as a failing hook.  Every optree API that emits a warning
(treespec_from_collection on a leaf, register_pytree_node of a namedtuple / struct-sequence class) is called with the
filter turned to "error": the call must raise exactly that warning (never SystemError "returned a result with an exception
set"), leave the interpreter's error indicator clear, leave the registry unchanged, and an immediately following call with the
filter reset must behave normally.  Exhaustive over the listed calls x filter actions."""
from ocv.bounded._extra import run_core

CORE = r'''
import collections, time, warnings
import optree

NS = 'c15x'
def nt_class():
    return collections.namedtuple('P', 'x y')

CALLS = {
    'from_collection_leaf': lambda: optree.treespec_from_collection(1),
    'from_collection_leaf_obj': lambda: optree.treespec_from_collection(object()),
    'from_collection_leaf_nil': lambda: optree.treespec_from_collection(None, none_is_leaf=True),
    'register_namedtuple': lambda: optree.register_pytree_node(nt_class(), lambda p: (tuple(p), None), lambda m, c: tuple(c), namespace=NS),
    'register_namedtuple_global_ns_twice': lambda: optree.register_pytree_node(nt_class(), lambda p: (tuple(p), None), lambda m, c: tuple(c), namespace='c15y'),
}

def cases(tier):
    for name in CALLS:
        for action in ('error', 'always', 'ignore', 'raise-from-showwarning'):
            yield (name, action)

def check(spec):
    name, action = spec
    bad = []
    before = len(optree.register_pytree_node.get(namespace=NS))
    with warnings.catch_warnings(record=(action == 'always')) as rec:
        if action == 'raise-from-showwarning':
            warnings.simplefilter('always')
            def boom(*a, **k): raise KeyError('showwarning failed')
            warnings.showwarning = boom
        else:
            warnings.simplefilter(action)
        try:
            CALLS[name]()
            err = None
        except BaseException as e:   # noqa: BLE001
            err = e
    if action == 'error':
        if err is None or not isinstance(err, Warning):
            bad.append(('C15.warning_turned_error_propagates_as_itself', f'{name} under warnings filter "error": {"returned normally" if err is None else "raised " + type(err).__name__ + ": " + str(err)[:120]}; expected the UserWarning itself'))
    elif action == 'raise-from-showwarning':
        if err is None or not isinstance(err, KeyError):
            bad.append(('C15.warning_turned_error_propagates_as_itself', f'{name} with a raising showwarning hook: {"returned normally" if err is None else "raised " + type(err).__name__ + ": " + str(err)[:120]}; expected the KeyError of the hook'))
    else:
        if err is not None:
            bad.append(('C15.unexpected_exception', f'{name} under warnings filter "{action}" raised {type(err).__name__}: {err}'))
    if err is not None and name.startswith('register'):
        after = len(optree.register_pytree_node.get(namespace=NS))
        if after != before:
            bad.append(('C15.failed_call_leaves_no_trace', f'{name}: the failed registration left {after - before} entry(ies) behind'))
    # a following ordinary call behaves normally (no stale error indicator)
    try:
        leaves, ts = optree.tree_flatten({'a': (1, 2)})
        if leaves != [1, 2]:
            bad.append(('C15.subsequent_calls_unaffected', f'after {name}/{action}: tree_flatten returned {leaves!r}'))
    except BaseException as e:   # noqa: BLE001
        bad.append(('C15.subsequent_calls_unaffected', f'after {name}/{action}: the next call raised {type(e).__name__}: {e}'))
    return bad
'''


def run(tier, seed):
    return run_core('c15_extra', CORE, tier,
                    scope='5 warning-emitting calls x 4 dispositions of the warnings machinery (error, always, ignore, raising showwarning hook)',
                    rule='one evaluation = one call under one disposition, followed by an ordinary call')
