"""Run one bounded contract monitor natively (in a subprocess whose PYTHONPATH points at the fresh build)."""
import importlib
import json
import sys
import time


def main() -> int:
    module, tier, seed, out = sys.argv[1], sys.argv[2], int(sys.argv[3]), sys.argv[4]
    import optree  # noqa: F401  (must be the freshly built one)
    assert '/.build/' in optree.__file__, f'bounded monitors must run on the fresh build, got {optree.__file__}'
    mod = importlib.import_module(f'ocv.bounded.{module}')
    t0 = time.time()
    rep = mod.run(tier, seed)
    rep.wall_s = round(time.time() - t0, 2)
    with open(out, 'w') as f:
        json.dump(rep.to_json(), f, default=str)
    return 0


if __name__ == '__main__':
    sys.exit(main())
