"""C19 - optree dataclasses and optree.functools.partial are faithful pytree nodes (bounded contract monitor).

Part A (optree.dataclasses.dataclass / make_dataclass / field): every field layout of the stated scope is built
twice from the same description on FRESH classes - once with optree's decorator in namespace N, once with the
stdlib decorator (the "twin").  The oracle is the property statement + stdlib `dataclasses` semantics observed on
the twin: children = values of the fields *declared* pytree_node (in `dataclasses.fields(twin)` order), metadata =
the other init fields, entries / paths / accessors = field names, round trip equal with `__post_init__` re-run, a
leaf in every namespace where it is not registered, the documented rejections, and "otherwise the class
dataclasses.dataclass would produce" = observable equality with the twin.

Part B (optree.functools.partial): flattening to (args, keywords) in every namespace with the wrapped callable as
metadata, no merging with a nested partial, and `tree_map` rebuilding a partial that calls the same function with
the mapped arguments (checked with a recording function against an independently computed call).

The part between the core markers is self-contained (optree + stdlib only) and is copied verbatim into the replay
scripts, so a replay executes exactly the code of the monitor.
"""
from __future__ import annotations

import itertools
import random

from ocv.bounded import _util_c as U
from ocv.result import BoundedReport

# >>> core
import dataclasses
import functools
import inspect
import operator
import re
import sys

import optree
import optree.dataclasses as odc
import optree.functools as oft
import optree.registry as _registry

GLOBAL = next(v for k, v in vars(_registry).items() if k.endswith('__GLOBAL_NAMESPACE'))
NS_ARG = {'G': GLOBAL, 'ns1': 'ns1', 'ns2': 'ns2'}
ALL_NS = ('', 'ns1', 'ns2', 'other')
CLS_NAME = 'Rec19'
MAKE_KEYS = {
    'C19.flatten_children_in_declaration_order': 'C19.make_dataclass_layout',
    'C19.metadata_fields_preserved': 'C19.make_dataclass_layout',
    'C19.entries_are_field_names': 'C19.make_dataclass_layout',
    'C19.accessors_address_leaves': 'C19.make_dataclass_layout',
    'C19.same_class_as_stdlib': 'C19.make_dataclass_same_class_as_stdlib',
    'C19.unexpected_exception': 'C19.make_dataclass_unexpected_exception',
    'C19.roundtrip_equal_post_init_rerun': 'C19.make_dataclass_roundtrip',
    'C19.leaf_in_other_namespaces': 'C19.make_dataclass_leaf_in_other_namespaces',
    'C19.rejects_non_init_pytree_node': 'C19.make_dataclass_rejects_non_init_pytree_node',
    'C19.rejects_decorating_twice': 'C19.make_dataclass_rejects_decorating_twice',
}


class Leaf:
    """A leaf object: distinct objects, equal iff same tag (so values made by a default_factory compare equal)."""
    __slots__ = ('tag',)

    def __init__(self, tag):
        self.tag = tag

    def __repr__(self):
        return 'L<%s>' % (self.tag,)

    def __eq__(self, other):
        return isinstance(other, Leaf) and other.tag == self.tag

    def __hash__(self):
        return hash(('Leaf', self.tag))

    def __lt__(self, other):
        if not isinstance(other, Leaf):
            return NotImplemented
        return self.tag < other.tag

    def __add__(self, other):
        return ('sum', self, other)


def recfn(*args, **kwargs):
    """The recording function: returns the arguments it was called with."""
    return (args, kwargs)


LAMBDA = lambda *a, **k: ('lam', a, k)   # noqa: E731


def mkval(kind, tag):
    if kind == 'L':
        return Leaf(tag)
    if kind == 'T':
        return (Leaf(tag + '.0'), Leaf(tag + '.1'))
    if kind == 'D':
        return {'j': [Leaf(tag + '.j0')], 'k': Leaf(tag + '.k')}
    if kind == 'N':
        return None
    if kind == 'E':
        return ()
    if kind == 'P':
        return oft.partial(recfn, Leaf(tag + '.p0'), pk=Leaf(tag + '.pk'))
    raise AssertionError(kind)


def ref_flatten(x, nil):
    """Independent reference: list of (path, leaf) of the pytrees this monitor builds (tuple, list, dict with
    keys inserted in sorted order, None, optree partial, anything else = leaf)."""
    if x is None:
        return [((), None)] if nil else []
    if isinstance(x, (tuple, list)):
        return [((i,) + p, v) for i, c in enumerate(x) for p, v in ref_flatten(c, nil)]
    if isinstance(x, dict):
        return [((k,) + p, v) for k in sorted(x) for p, v in ref_flatten(x[k], nil)]
    if isinstance(x, oft.partial):
        return ([(('args',) + p, v) for p, v in ref_flatten(x.args, nil)]
                + [(('keywords',) + p, v) for p, v in ref_flatten(x.keywords, nil)])
    return [((), x)]


def ref_map(g, x, nil):
    if x is None:
        return g(None) if nil else None
    if isinstance(x, tuple):
        return tuple(ref_map(g, c, nil) for c in x)
    if isinstance(x, list):
        return [ref_map(g, c, nil) for c in x]
    if isinstance(x, dict):
        return {k: ref_map(g, x[k], nil) for k in sorted(x)}
    if isinstance(x, oft.partial):
        return ('PARTIAL', ref_map(g, x.args, nil), ref_map(g, x.keywords, nil))
    return g(x)


def mark(x):
    return Leaf('m:' + (x.tag if isinstance(x, Leaf) else repr(x)))


def same_objects(a, b):
    return len(a) == len(b) and all(x is y for x, y in zip(a, b))


def repr_of(x):
    """repr without object addresses (repr=False leaves object.__repr__)."""
    return re.sub(r' at 0x[0-9a-fA-F]+', ' at 0x..', repr(x))


def outcome(fn):
    """('ok', value) or ('exc', exception type name): used to compare behaviour of the class with its twin."""
    try:
        return ('ok', fn())
    except Exception as e:   # noqa: BLE001 - the outcome is compared, not ignored
        return ('exc', type(e).__name__)


def show_exc(e):
    return '%s: %s' % (type(e).__name__, ' '.join(str(e).split())[:200])


class Rec:
    """Collects contract evaluations of one case."""

    def __init__(self, keymap=None):
        self.evals = 0
        self.bad = []
        self.keymap = keymap or {}
        self.context = ''

    def ck(self, ok, key, what):
        self.evals += 1
        if not ok:
            if callable(what):
                try:
                    what = what()
                except Exception as e:   # noqa: BLE001 - e.g. the repr of a half-built instance raises
                    what = '%s <the description of the observed value could not be formatted: %s>' % (
                        self.context, show_exc(e))
            self.bad.append((self.keymap.get(key, key), re.sub(r' at 0x[0-9a-fA-F]+', '', what)))
        return ok

    def call(self, label, fn, key='C19.unexpected_exception'):
        """Run an optree call the contract does not allow to raise. -> (ok, value)"""
        self.evals += 1
        try:
            return True, fn()
        except Exception as e:   # noqa: BLE001 - recorded as a violation
            self.bad.append((self.keymap.get(key, key), '%s raised %s' % (label, show_exc(e))))
            return False, None


# ---- field layouts --------------------------------------------------------------------------------------------
# field spec: dict(name, via: 'o' optree field() | 'p' plain annotation (+ default value) | 's' stdlib field(),
#                  default: 'n' | 'v' | 'f', init: bool, pn: True | False | None, kw: None | True | False,
#                  val: value kind of mkval, bare: bool (make_dataclass only: field given as a bare name))

def declared_pytree_node(fs):
    """What the declaration says (statement: pytree_node defaults to True)."""
    return True if fs.get('pn') is None else bool(fs['pn'])


def field_call_rejected(fs):
    """optree.dataclasses.field(init=False) with pytree_node True / default: the field() call itself must raise."""
    return fs['via'] == 'o' and not fs.get('init', True) and declared_pytree_node(fs)


def default_of(name):
    return Leaf('def:' + name)


_FACTORIES = {}


def factory_of(name):
    if name not in _FACTORIES:
        _FACTORIES[name] = lambda name=name: Leaf('fac:' + name)
    return _FACTORIES[name]


def field_object(fs, lib):
    """-> (has_class_attribute, value). lib: 'optree' (the class under test) | 'stdlib' (the twin)."""
    name = fs['name']
    if fs['via'] == 'p':
        return (True, default_of(name)) if fs['default'] == 'v' else (False, None)
    kw = {}
    if fs['default'] == 'v':
        kw['default'] = default_of(name)
    elif fs['default'] == 'f':
        kw['default_factory'] = factory_of(name)
    if not fs.get('init', True):
        kw['init'] = False
    if fs.get('kw') is not None:
        kw['kw_only'] = fs['kw']
    if fs['via'] == 'o' and lib == 'optree':
        if fs.get('pn') is not None:
            kw['pytree_node'] = fs['pn']
        return True, odc.field(**kw)
    if fs.get('pn') is not None:
        kw['metadata'] = {'pytree_node': fs['pn']}
    return True, dataclasses.field(**kw)


def make_post_init():
    def __post_init__(self):
        cls = type(self)
        cls._pc[0] += 1
        fl = dataclasses.fields(cls)
        init_names = [f.name for f in fl if f.init]
        for f in fl:
            if not f.init and f.default is dataclasses.MISSING and f.default_factory is dataclasses.MISSING:
                object.__setattr__(self, f.name, ('post', tuple(getattr(self, n) for n in init_names)))
    return __post_init__


def plain_base():
    class PlainBase:
        tag = 'plain-base'

        def hello(self):
            return 'hello'
    return PlainBase


def build_class(spec, lib, track):
    """Build the class of `spec` with optree (lib='optree') or its stdlib twin (lib='stdlib').

    track = {'reg': [(class, namespace symbol) that were registered, for the cleanup], 'raw': undecorated class}."""
    registered = track['reg']
    opts = dict(spec.get('opts') or {})
    base_spec = spec.get('base')
    bases = ()
    if base_spec is not None:
        kind = base_spec['kind']
        if kind == 'plain':
            bases = (plain_base(),)
        else:
            body = {'__annotations__': {}, '__qualname__': 'Base19', '__module__': 'c19'}
            for fs in base_spec['fields']:
                body['__annotations__'][fs['name']] = object
                has, v = field_object(fs, lib if kind.startswith('optree') else 'stdlib')
                if has:
                    body[fs['name']] = v
            b = type('Base19', (), body)
            bopts = {k: v for k, v in opts.items() if k in ('frozen', 'kw_only')}
            if lib == 'optree' and kind.startswith('optree'):
                bns = base_spec['ns']
                b = odc.dataclass(b, namespace=NS_ARG[bns], **bopts)
                registered.append((b, bns))
            else:
                b = dataclasses.dataclass(b, **bopts)
            bases = (b,)
    extra = {'_pc': [0], '__post_init__': make_post_init(), 'method19': lambda self: 'm19'}
    if spec['how'] == 'make':
        flist = []
        for fs in spec['fields']:
            has, v = field_object(fs, lib)
            if fs.get('bare'):
                flist.append(fs['name'])
            elif has:
                flist.append((fs['name'], object, v))
            else:
                flist.append((fs['name'], object))
        if lib == 'optree':
            cls = odc.make_dataclass(CLS_NAME, flist, bases=bases, ns=extra, namespace=NS_ARG[spec['ns']],
                                     module='c19', **opts)
            registered.append((cls, spec['ns']))
        else:
            cls = dataclasses.make_dataclass(CLS_NAME, flist, bases=bases, namespace=extra, module='c19', **opts)
        return cls
    body = {'__annotations__': {}, '__qualname__': CLS_NAME, '__module__': 'c19'}
    body.update(extra)
    for fs in spec['fields']:
        body['__annotations__'][fs['name']] = object
        has, v = field_object(fs, lib)
        if has:
            body[fs['name']] = v
    raw = type(CLS_NAME, bases, body)
    track['raw'] = raw
    if lib == 'stdlib':
        return dataclasses.dataclass(raw, **opts)
    if spec['how'] == 'deco_factory':
        cls = odc.dataclass(namespace=NS_ARG[spec['ns']], **opts)(raw)
    else:
        cls = odc.dataclass(raw, namespace=NS_ARG[spec['ns']], **opts)
    registered.append((cls, spec['ns']))
    return cls


def new_track():
    return {'reg': [], 'raw': None}


def cleanup(track, extra_classes=()):
    """Bring the registry back (not part of the oracle)."""
    for cls, ns in track['reg']:
        try:
            optree.unregister_pytree_node(cls, namespace=NS_ARG[ns])
        except Exception:   # noqa: BLE001 - cleanup only
            pass
    for cls in extra_classes:
        for ns in ('G', 'ns1', 'ns2'):
            try:
                optree.unregister_pytree_node(cls, namespace=NS_ARG[ns])
            except Exception:   # noqa: BLE001 - cleanup only
                pass


def show_field(fs):
    if fs['via'] == 'p':
        return '%s%s' % (fs['name'], '=default' if fs['default'] == 'v' else '') + (' [bare name]' if fs.get('bare') else '')
    a = []
    if fs['default'] == 'v':
        a.append('default=..')
    if fs['default'] == 'f':
        a.append('default_factory=..')
    if not fs.get('init', True):
        a.append('init=False')
    if fs.get('kw') is not None:
        a.append('kw_only=%s' % fs['kw'])
    if fs['via'] == 'o':
        if fs.get('pn') is not None:
            a.append('pytree_node=%s' % fs['pn'])
        return '%s=optree.field(%s)' % (fs['name'], ', '.join(a))
    if fs.get('pn') is not None:
        a.append("metadata={'pytree_node': %s}" % fs['pn'])
    return '%s=dataclasses.field(%s)' % (fs['name'], ', '.join(a))


def describe(spec):
    opts = ', '.join('%s=%s' % kv for kv in sorted((spec.get('opts') or {}).items()))
    how = {'deco': 'optree.dataclasses.dataclass(cls, ', 'deco_factory': 'optree.dataclasses.dataclass(',
           'make': 'optree.dataclasses.make_dataclass(name, fields, '}[spec['how']]
    s = '%snamespace=%s%s)' % (how, 'GLOBAL' if spec['ns'] == 'G' else repr(spec['ns']), (', ' + opts) if opts else '')
    s += ' fields [%s]' % '; '.join(show_field(f) for f in spec['fields'])
    s += ' values %s' % ''.join(f.get('val', 'L') for f in spec['fields'])
    b = spec.get('base')
    if b is not None:
        if b['kind'] == 'plain':
            s += ' base=plain class'
        else:
            s += ' base=%s dataclass%s [%s]' % (
                'optree' if b['kind'].startswith('optree') else 'stdlib',
                (' in namespace %s' % ('GLOBAL' if b['ns'] == 'G' else repr(b['ns']))) if b['kind'].startswith('optree') else '',
                '; '.join(show_field(f) for f in b['fields']))
    return s


def _reach(x, out):
    out.add(id(x))
    if isinstance(x, (tuple, list)):
        for c in x:
            _reach(c, out)
    elif isinstance(x, dict):
        for k, c in x.items():
            _reach(k, out)
            _reach(c, out)
    return out


def field_tuples(cls):
    return [(f.name, f.type, f.default, f.default_factory is dataclasses.MISSING, f.init, f.repr, f.hash, f.compare,
             f.kw_only) for f in dataclasses.fields(cls)]


def class_keys(cls):
    return sorted(k for k in vars(cls) if k != '__optree_dataclass_fields__')


def check_layout(spec):
    """All contract evaluations of one layout. -> (Rec, info)"""
    M = dataclasses.MISSING
    r = Rec(MAKE_KEYS if spec['how'] == 'make' else None)
    info = {'status': 'ok', 'nontrivial': False}
    D = r.context = describe(spec)
    N = NS_ARG[spec['ns']]                       # registration namespace (GLOBAL sentinel or a string)
    NL = '' if spec['ns'] == 'G' else spec['ns']   # the same namespace as a lookup argument
    opts = spec.get('opts') or {}
    try:
        T = build_class(spec, 'stdlib', new_track())
    except (TypeError, ValueError) as e:
        info['status'] = 'twin_rejected: ' + show_exc(e)      # stdlib dataclasses rejects the layout: out of scope
        return r, info
    by_name = {}
    if spec.get('base') is not None and spec['base']['kind'] != 'plain':
        for fs in spec['base']['fields']:
            by_name[fs['name']] = fs
    for fs in spec['fields']:
        by_name[fs['name']] = fs
    tf = dataclasses.fields(T)
    children = [f.name for f in tf if declared_pytree_node(by_name[f.name])]
    metadata = [f.name for f in tf if not declared_pytree_node(by_name[f.name]) and f.init]
    others = [f.name for f in tf if f.name not in children and f.name not in metadata]
    init_names = [f.name for f in tf if f.init]
    must_reject = any(not f.init for f in tf if f.name in children)
    info['nontrivial'] = bool(children) and bool(metadata or others) and not must_reject

    def args_for(variant, prefix):
        pos, kw = [], {}
        for f in tf:
            if not f.init:
                continue
            if variant == 'min' and (f.default is not M or f.default_factory is not M):
                continue
            v = mkval(by_name[f.name].get('val', 'L'), prefix + f.name)
            if f.kw_only or variant == 'min':
                kw[f.name] = v
            else:
                pos.append(v)
        return pos, kw

    track = new_track()
    try:
        # ---- decoration -------------------------------------------------------------------------------------
        try:
            C = build_class(spec, 'optree', track)
        except Exception as e:   # noqa: BLE001 - classified right below
            if must_reject:
                info['status'] = 'rejected'
                r.ck(isinstance(e, TypeError), 'C19.rejects_non_init_pytree_node',
                     '%s: a non-init field is declared a pytree node; expected TypeError, got %s' % (D, show_exc(e)))
                raw = track['raw']
                if raw is not None and dataclasses.is_dataclass(raw):
                    pos, kw = args_for('full', 'v.')
                    oc = outcome(lambda: raw(*pos, **kw))
                    if oc[0] == 'ok':
                        for ns in ALL_NS:
                            ok, lv = r.call('%s: tree_leaves(namespace=%r) after the rejected decoration' % (D, ns),
                                            lambda: optree.tree_leaves(oc[1], namespace=ns))
                            if ok:
                                r.ck(len(lv) == 1 and lv[0] is oc[1], 'C19.rejects_non_init_pytree_node',
                                     lambda: '%s: decoration raised TypeError but the class is registered: tree_leaves(obj, '
                                             'namespace=%r) = %r, expected [obj]' % (D, ns, lv))
            else:
                info['status'] = 'unexpected_exception'
                r.ck(False, 'C19.unexpected_exception',
                     '%s: stdlib dataclasses accepts the layout and no non-init field is a pytree node, but optree raised '
                     '%s' % (D, show_exc(e)))
            return r, info
        if must_reject:
            info['status'] = 'not_rejected'
            r.ck(False, 'C19.rejects_non_init_pytree_node',
                 '%s: a non-init field is declared a pytree node (pytree_node defaults to True); expected TypeError, but '
                 'the decoration returned normally' % D)
            return r, info
        r.evals += 1

        # ---- the class is the one dataclasses.dataclass would produce -----------------------------------------
        K = 'C19.same_class_as_stdlib'
        r.ck(dataclasses.is_dataclass(C) and isinstance(C, type), K, '%s: result is not a dataclass' % D)
        oc = outcome(lambda: field_tuples(C))
        r.ck(oc == ('ok', field_tuples(T)), K,
             lambda: '%s: dataclasses.fields (name, type, default, no-factory, init, repr, hash, compare, kw_only) = %r, '
                     'stdlib twin: %r' % (D, oc[1], field_tuples(T)))
        oc = outcome(lambda: str(inspect.signature(C.__init__)))
        r.ck(oc == ('ok', str(inspect.signature(T.__init__))), K,
             lambda: '%s: __init__ signature %r, stdlib twin: %r' % (D, oc[1], str(inspect.signature(T.__init__))))
        r.ck(getattr(C, '__slots__', None) == getattr(T, '__slots__', None), K,
             lambda: '%s: __slots__ %r, stdlib twin: %r' % (D, getattr(C, '__slots__', None), getattr(T, '__slots__', None)))
        r.ck(getattr(C, '__match_args__', None) == getattr(T, '__match_args__', None), K,
             lambda: '%s: __match_args__ %r, stdlib twin: %r' % (D, getattr(C, '__match_args__', None),
                                                                getattr(T, '__match_args__', None)))
        r.ck((C.__hash__ is None) == (T.__hash__ is None), K,
             lambda: '%s: (__hash__ is None) = %r, stdlib twin: %r' % (D, C.__hash__ is None, T.__hash__ is None))
        r.ck(class_keys(C) == class_keys(T), K,
             lambda: '%s: class dict keys differ from the stdlib twin (besides __optree_dataclass_fields__): %r' % (
                 D, sorted(set(class_keys(C)) ^ set(class_keys(T)))))
        r.ck((C.__name__, C.__qualname__, C.__module__, [b.__name__ for b in C.__mro__]) ==
             (T.__name__, T.__qualname__, T.__module__, [b.__name__ for b in T.__mro__]), K,
             lambda: '%s: name/qualname/module/mro %r, stdlib twin %r' % (
                 D, (C.__name__, C.__qualname__, C.__module__, [b.__name__ for b in C.__mro__]),
                 (T.__name__, T.__qualname__, T.__module__, [b.__name__ for b in T.__mro__])))

        objs = []
        for variant in ('full', 'min'):
            pos, kw = args_for(variant, 'v.')
            tw = T(*pos, **kw)
            oc = outcome(lambda: C(*pos, **kw))
            if not r.ck(oc[0] == 'ok', K, lambda: '%s: constructing the instance with %d positional and keyword arguments '
                        '%r raised %s; the stdlib twin accepts them' % (D, len(pos), sorted(kw), oc[1])):
                continue
            o = oc[1]
            pos2, kw2 = args_for(variant, 'w.')
            same_o, same_t = outcome(lambda: C(*pos, **kw)), T(*pos, **kw)
            diff_o, diff_t = outcome(lambda: C(*pos2, **kw2)), T(*pos2, **kw2)
            obs_o = [outcome(lambda: repr_of(o)), outcome(lambda: o == same_o[1]), outcome(lambda: o == diff_o[1]),
                     outcome(lambda: o != diff_o[1]), outcome(lambda: hash(o) == hash(same_o[1])),
                     outcome(lambda: o < diff_o[1]), outcome(lambda: o.method19()),
                     outcome(lambda: [getattr(o, f.name) for f in tf])]
            obs_t = [outcome(lambda: repr_of(tw)), outcome(lambda: tw == same_t), outcome(lambda: tw == diff_t),
                     outcome(lambda: tw != diff_t), outcome(lambda: hash(tw) == hash(same_t)),
                     outcome(lambda: tw < diff_t), outcome(lambda: tw.method19()),
                     outcome(lambda: [getattr(tw, f.name) for f in tf])]
            for what, a, b in zip(('repr(obj)', 'obj == same-args instance', 'obj == different instance',
                                   'obj != different instance', 'hash(obj) == hash(same-args instance)',
                                   'obj < different instance', 'a method of the class body', 'field values'),
                                  obs_o, obs_t):
                r.ck(a == b, K, lambda: '%s (%s arguments): %s -> %r, stdlib twin: %r' % (D, variant, what, a, b))
            if init_names and same_o[0] == 'ok':
                a = outcome(lambda: setattr(same_o[1], init_names[0], Leaf('set')))
                b = outcome(lambda: setattr(same_t, init_names[0], Leaf('set')))
                r.ck(a == b, K, lambda: '%s: setattr(obj, %r, ..) -> %r, stdlib twin: %r' % (D, init_names[0], a, b))
            if obs_o[-1][0] == 'ok':      # otherwise the instance is unusable (already reported above)
                objs.append((variant, o))
        info['accepted'] = True

        # ---- pytree behaviour ---------------------------------------------------------------------------------
        for variant, o in objs:
            for nil in ((False, True) if variant == 'full' else (False,)):
                L = '%s (%s arguments, none_is_leaf=%s)' % (D, variant, nil)
                exp = [((n,) + p, v) for n in children for p, v in ref_flatten(getattr(o, n), nil)]
                exp_paths, exp_leaves = [p for p, _ in exp], [v for _, v in exp]
                ok, res = r.call('%s: tree_flatten(obj, namespace=N)' % L,
                                 lambda: optree.tree_flatten(o, none_is_leaf=nil, namespace=NL))
                if not ok:
                    continue
                leaves, ts = res
                r.ck(same_objects(leaves, exp_leaves), 'C19.flatten_children_in_declaration_order',
                     lambda: '%s: tree_flatten leaves %r, expected the values of the pytree_node fields %r in declaration '
                             'order: %r' % (L, leaves, children, exp_leaves))
                r.ck(ts.kind == optree.PyTreeKind.CUSTOM and ts.type is C and ts.num_children == len(children),
                     'C19.flatten_children_in_declaration_order',
                     lambda: '%s: treespec root kind=%r type=%r num_children=%r, expected CUSTOM / the class / %d' % (
                         L, ts.kind, ts.type, ts.num_children, len(children)))
                ok, ent = r.call('%s: treespec.entries()' % L, lambda: ts.entries())
                if ok:
                    r.ck(list(ent) == children, 'C19.entries_are_field_names',
                         lambda: '%s: treespec.entries() = %r, expected the names of the pytree_node fields %r' % (L, ent, children))
                ok, paths = r.call('%s: tree_paths' % L, lambda: optree.tree_paths(o, none_is_leaf=nil, namespace=NL))
                if ok:
                    r.ck(list(paths) == exp_paths, 'C19.entries_are_field_names',
                         lambda: '%s: tree_paths = %r, expected %r' % (L, paths, exp_paths))
                ok, res = r.call('%s: tree_flatten_with_path' % L,
                                 lambda: optree.tree_flatten_with_path(o, none_is_leaf=nil, namespace=NL))
                if ok:
                    r.ck(list(res[0]) == exp_paths and same_objects(res[1], exp_leaves) and res[2] == ts,
                         'C19.entries_are_field_names',
                         lambda: '%s: tree_flatten_with_path = %r, expected paths %r, leaves %r' % (L, res, exp_paths, exp_leaves))
                ok, res = r.call('%s: tree_flatten_with_accessor' % L,
                                 lambda: optree.tree_flatten_with_accessor(o, none_is_leaf=nil, namespace=NL))
                ok2, accs = r.call('%s: tree_accessors' % L, lambda: optree.tree_accessors(o, none_is_leaf=nil, namespace=NL))
                if ok and ok2:
                    KA = 'C19.accessors_address_leaves'
                    r.ck(list(res[0]) == list(accs) and same_objects(res[1], exp_leaves) and len(accs) == len(exp),
                         KA, lambda: '%s: tree_flatten_with_accessor %r / tree_accessors %r disagree or do not give the '
                                     'leaves %r' % (L, res, accs, exp_leaves))
                    for acc, (p, v) in zip(accs, exp):
                        def acc_ok():
                            e0 = acc[0]
                            code = acc.codify('obj')
                            return (acc(o) is v and isinstance(e0, optree.DataclassEntry) and e0.entry == p[0]
                                    and e0.name == p[0] and e0.field == p[0] and e0.type is C
                                    and e0.kind == optree.PyTreeKind.CUSTOM and e0(o) is getattr(o, p[0])
                                    and tuple(acc.path) == p and code.startswith('obj.' + p[0])
                                    and eval(code, {'obj': o}) is v)
                        okk, val = r.call('%s: using accessor %r' % (L, acc), acc_ok, KA)
                        if okk:
                            r.ck(val, KA, lambda: '%s: accessor %r (codify %r) does not address leaf %r at %r through a '
                                                  'DataclassEntry with field/name %r' % (L, acc, acc.codify('obj'), v, p, p[0]))
                # round trip
                KR = 'C19.roundtrip_equal_post_init_rerun'
                pc0 = C._pc[0]
                ok, back = r.call('%s: tree_unflatten(treespec, leaves)' % L, lambda: optree.tree_unflatten(ts, leaves))
                if ok:
                    eq = outcome(lambda: back == o) if opts.get('eq', True) else ('ok', True)
                    fieldwise = outcome(lambda: all(getattr(back, n) == getattr(o, n) for n in children + metadata + others))
                    r.ck(back is not o and type(back) is C and eq == ('ok', True) and fieldwise == ('ok', True), KR,
                         lambda: '%s: tree_unflatten(*tree_flatten(obj)) = %r (new object: %s, type ok: %s, == obj: %r, '
                                 'fields equal: %r), expected a new instance equal to %r' % (
                                     L, back, back is not o, type(back) is C, eq, fieldwise, o))
                    r.ck(C._pc[0] == pc0 + 1, KR,
                         lambda: '%s: __post_init__ ran %d times during tree_unflatten, expected once' % (L, C._pc[0] - pc0))
                    okk, val = r.call('%s: reading the metadata fields of the round-tripped instance' % L,
                                      lambda: all(getattr(back, n) is getattr(o, n) for n in metadata),
                                      'C19.metadata_fields_preserved')
                    if okk:
                        r.ck(val, 'C19.metadata_fields_preserved',
                             lambda: '%s: after the round trip the other init fields %r are %r, expected the very objects %r '
                                     '(metadata is not flattened)' % (L, metadata, [getattr(back, n) for n in metadata],
                                                                      [getattr(o, n) for n in metadata]))
                new = [Leaf('new%d' % i) for i in range(len(exp_leaves))]
                pc0 = C._pc[0]
                ok, b2 = r.call('%s: tree_unflatten(treespec, new leaves)' % L, lambda: optree.tree_unflatten(ts, new))
                if ok:
                    def rebuilt_ok():
                        got = [v for n in children for _, v in ref_flatten(getattr(b2, n), nil)]
                        if not same_objects(got, new) or type(b2) is not C:
                            return False
                        for n in children:   # same shape as before
                            if [p for p, _ in ref_flatten(getattr(b2, n), nil)] != [p for p, _ in ref_flatten(getattr(o, n), nil)]:
                                return False
                        return True
                    okk, val = r.call('%s: reading the rebuilt instance' % L, rebuilt_ok, KR)
                    if okk:
                        r.ck(val, KR, lambda: '%s: tree_unflatten(treespec, %r) = %r: the pytree_node fields %r do not hold '
                                              'the new leaves' % (L, new, b2, children))
                    okk, val = r.call('%s: reading the metadata fields of the rebuilt instance' % L,
                                      lambda: all(getattr(b2, n) is getattr(o, n) for n in metadata),
                                      'C19.metadata_fields_preserved')
                    if okk:
                        r.ck(val, 'C19.metadata_fields_preserved',
                             lambda: '%s: after tree_unflatten(treespec, new leaves) the other init fields %r are %r, '
                                     'expected the original values %r' % (L, metadata, [getattr(b2, n, '<unset>') for n in metadata],
                                                                          [getattr(o, n) for n in metadata]))

                    def recomputed_ok():
                        for f in tf:
                            if f.name in others:
                                if f.default is M and f.default_factory is M:
                                    want = ('post', tuple(getattr(b2, n) for n in init_names))
                                else:
                                    want = getattr(o, f.name)
                                if getattr(b2, f.name) != want:
                                    return False
                        return C._pc[0] == pc0 + 1
                    okk, val = r.call('%s: reading the non-init fields of the rebuilt instance' % L, recomputed_ok, KR)
                    if okk:
                        r.ck(val, KR, lambda: '%s: after tree_unflatten(treespec, new leaves) __post_init__ ran %d times '
                                              '(expected 1) / the non-init fields %r = %r are not recomputed from the new '
                                              'values' % (L, C._pc[0] - pc0, others, [getattr(b2, n, '<unset>') for n in others]))
            # one level: children / metadata / entries
            L = '%s (%s arguments)' % (D, variant)
            ok, one = r.call('%s: tree_flatten_one_level(obj, namespace=N)' % L,
                             lambda: optree.tree_flatten_one_level(o, namespace=NL))
            if ok:
                r.ck(same_objects(list(one.children), [getattr(o, n) for n in children]),
                     'C19.flatten_children_in_declaration_order',
                     lambda: '%s: tree_flatten_one_level children %r, expected the values of %r: %r' % (
                         L, one.children, children, [getattr(o, n) for n in children]))
                r.ck(list(one.entries) == children and one.type is C and one.kind == optree.PyTreeKind.CUSTOM
                     and one.path_entry_type is optree.DataclassEntry, 'C19.entries_are_field_names',
                     lambda: '%s: tree_flatten_one_level entries=%r type=%r kind=%r path_entry_type=%r, expected %r / the '
                             'class / CUSTOM / DataclassEntry' % (L, one.entries, one.type, one.kind, one.path_entry_type, children))
                seen = _reach(one.metadata, set())
                child_leaves = [v for n in children for _, v in ref_flatten(getattr(o, n), True) if isinstance(v, Leaf)]
                meta_vals = [getattr(o, n) for n in metadata if getattr(o, n) is not None and getattr(o, n) != ()]
                r.ck(all(id(v) in seen for v in meta_vals) and not any(id(v) in seen for v in child_leaves),
                     'C19.metadata_fields_preserved',
                     lambda: '%s: tree_flatten_one_level metadata %r, expected it to hold the values of the other init '
                             'fields %r = %r and no child' % (L, one.metadata, metadata, [getattr(o, n) for n in metadata]))
                ok, b3 = r.call('%s: one_level.unflatten_func(metadata, children)' % L,
                                lambda: one.unflatten_func(one.metadata, one.children))
                if ok:
                    fw = outcome(lambda: type(b3) is C and b3 is not o and all(
                        getattr(b3, n) == getattr(o, n) for n in children + metadata + others))
                    r.ck(fw == ('ok', True), 'C19.roundtrip_equal_post_init_rerun',
                         lambda: '%s: unflatten_func(metadata, children) of tree_flatten_one_level = %r, expected a new '
                                 'instance equal to %r' % (L, b3, o))
            # a node in N only
            if variant == 'full':
                ok, exp_leaves = r.call('%s: tree_leaves(obj, namespace=N)' % L, lambda: optree.tree_leaves(o, namespace=NL))
                if not ok:
                    continue
                for ns in ALL_NS + (None,):
                    node = spec['ns'] == 'G' or ns == spec['ns']
                    label = 'tree_leaves(obj)' if ns is None else 'tree_leaves(obj, namespace=%r)' % ns
                    ok, lv = r.call('%s: %s' % (L, label),
                                    (lambda: optree.tree_leaves(o)) if ns is None else (lambda: optree.tree_leaves(o, namespace=ns)))
                    if ok:
                        want = exp_leaves if node else [o]
                        r.ck(same_objects(lv, want), 'C19.leaf_in_other_namespaces',
                             lambda: '%s: registered in %s; %s = %r, expected %s' % (
                                 L, 'the global namespace' if spec['ns'] == 'G' else 'namespace %r only' % spec['ns'], label, lv,
                                 ('the same leaves as in its own namespace %r' % want) if node else 'the object itself as a leaf'))
        # decorating twice
        try:
            odc.dataclass(C, namespace=N)
            r.ck(False, 'C19.rejects_decorating_twice', '%s: applying optree.dataclasses.dataclass a second time returned '
                                                        'normally, expected TypeError' % D)
        except Exception as e:   # noqa: BLE001 - classified
            r.ck(isinstance(e, TypeError), 'C19.rejects_decorating_twice',
                 '%s: applying optree.dataclasses.dataclass a second time raised %s, expected TypeError' % (D, show_exc(e)))
        return r, info
    finally:
        cleanup(track)

# ---- rejections that do not depend on a layout -------------------------------------------------------------------
# rspec: dict(kind, ...) - see check_rejection

BAD_NAMESPACES = {'int': 1, 'None': None, 'bytes': b'ns1', 'tuple': ('ns1',)}
NON_CLASSES = {'int': 42, 'str': 'Rec19', 'function': recfn, 'instance': Leaf('x')}


def _default_class():
    body = {'__annotations__': {'a': object, 'b': object}, 'a': Leaf('da'), 'b': Leaf('db'), '__qualname__': CLS_NAME,
            '__module__': 'c19'}
    return type(CLS_NAME, (), body)


def check_rejection(rs):
    r = Rec()
    r.context = 'check_rejection(%r)' % (rs,)
    kind = rs['kind']
    classes = []
    try:
        if kind == 'field_noninit':
            kw = {'init': False}
            if rs['default'] == 'v':
                kw['default'] = Leaf('d')
            elif rs['default'] == 'f':
                kw['default_factory'] = list
            if rs['kw'] is not None:
                kw['kw_only'] = rs['kw']
            if rs['pn'] is not None:
                kw['pytree_node'] = rs['pn']
            if rs.get('meta') is not None:
                kw['metadata'] = rs['meta']
            D = 'optree.dataclasses.field(%s)' % ', '.join('%s=%r' % kv for kv in kw.items())
            want_reject = rs['pn'] is True or (rs['pn'] is None and (rs.get('meta') or {}).get('pytree_node', True))
            oc = outcome(lambda: odc.field(**kw))
            if want_reject:
                r.ck(oc == ('exc', 'TypeError'), 'C19.rejects_non_init_pytree_node',
                     '%s: a non-init field declared a pytree node (pytree_node defaults to True); expected TypeError, got %r' % (D, oc))
            else:
                r.ck(oc[0] == 'ok' and isinstance(oc[1], dataclasses.Field) and oc[1].init is False,
                     'C19.unexpected_exception', '%s: a non-init field that is not a pytree node is allowed; got %r' % (D, oc))
            return r
        cls = _default_class()
        classes.append(cls)
        if kind == 'empty_namespace':
            D, fn = {
                'deco': ("optree.dataclasses.dataclass(cls, namespace='')", lambda: odc.dataclass(cls, namespace='')),
                'deco_factory': ("optree.dataclasses.dataclass(namespace='')(cls)", lambda: odc.dataclass(namespace='')(cls)),
                'deco_opts': ("optree.dataclasses.dataclass(cls, namespace='', frozen=True, slots=True)",
                              lambda: odc.dataclass(cls, namespace='', frozen=True, slots=True)),
                'make': ("optree.dataclasses.make_dataclass('Rec19', ['a', ('b', object)], namespace='')",
                         lambda: odc.make_dataclass(CLS_NAME, ['a', ('b', object)], namespace='')),
                'make_ns': ("optree.dataclasses.make_dataclass('Rec19', [('a', object, field(pytree_node=False))], ns={}, namespace='')",
                            lambda: odc.make_dataclass(CLS_NAME, [('a', object, odc.field(pytree_node=False))], ns={}, namespace='')),
            }[rs['form']]
            key, want = 'C19.rejects_empty_namespace', 'ValueError'
        elif kind == 'non_str_namespace':
            bad = BAD_NAMESPACES[rs['value']]
            D, fn = {
                'deco': ('optree.dataclasses.dataclass(cls, namespace=%r)' % (bad,), lambda: odc.dataclass(cls, namespace=bad)),
                'deco_factory': ('optree.dataclasses.dataclass(namespace=%r)(cls)' % (bad,), lambda: odc.dataclass(namespace=bad)(cls)),
                'make': ("optree.dataclasses.make_dataclass('Rec19', ['a'], namespace=%r)" % (bad,),
                         lambda: odc.make_dataclass(CLS_NAME, ['a'], namespace=bad)),
            }[rs['form']]
            key, want = 'C19.rejects_non_str_namespace', 'TypeError'
        elif kind == 'non_class':
            bad = NON_CLASSES[rs['value']]
            if rs['form'] == 'deco':
                D, fn = 'optree.dataclasses.dataclass(%r, namespace=%r)' % (bad, rs['ns']), \
                    lambda: odc.dataclass(bad, namespace=NS_ARG[rs['ns']])
            else:
                D, fn = 'optree.dataclasses.dataclass(namespace=%r)(%r)' % (rs['ns'], bad), \
                    lambda: odc.dataclass(namespace=NS_ARG[rs['ns']])(bad)
            key, want = 'C19.rejects_non_class', 'TypeError'
        elif kind == 'twice':
            first, second = rs['first'], rs['second']
            D = 'optree.dataclasses.dataclass(cls, namespace=%r%s) applied to a class already decorated in namespace %r' % (
                second, ''.join(', %s=%r' % kv for kv in sorted(rs.get('opts', {}).items())), first)
            c1 = odc.dataclass(cls, namespace=NS_ARG[first])
            classes.append(c1)
            o = c1()
            before = {ns: optree.tree_leaves(o, namespace=ns) for ns in ALL_NS}
            if rs['form'] == 'deco':
                fn = lambda: odc.dataclass(c1, namespace=NS_ARG[second], **rs.get('opts', {}))   # noqa: E731
            else:
                fn = lambda: odc.dataclass(namespace=NS_ARG[second], **rs.get('opts', {}))(c1)   # noqa: E731
            oc = outcome(fn)
            r.ck(oc == ('exc', 'TypeError'), 'C19.rejects_decorating_twice', '%s: expected TypeError, got %r' % (D, oc))
            after = {ns: optree.tree_leaves(o, namespace=ns) for ns in ALL_NS}
            r.ck(all(same_objects(before[ns], after[ns]) for ns in ALL_NS), 'C19.rejects_decorating_twice',
                 lambda: '%s: the rejected second decoration changed how instances flatten: before %r, after %r' % (D, before, after))
            if oc[0] == 'ok' and isinstance(oc[1], type):
                classes.append(oc[1])
            return r
        else:
            raise AssertionError(kind)
        oc = outcome(fn)
        r.ck(oc == ('exc', want), key, '%s: expected %s, got %r' % (D, want, oc))
        if oc[0] == 'ok' and isinstance(oc[1], type):
            classes.append(oc[1])
        if kind != 'non_class':
            inst = outcome(lambda: cls())
            if inst[0] == 'ok':
                for ns in ALL_NS:
                    ok, lv = r.call('%s then tree_leaves(cls(), namespace=%r)' % (D, ns),
                                    lambda: optree.tree_leaves(inst[1], namespace=ns))
                    if ok:
                        r.ck(len(lv) == 1 and lv[0] is inst[1], key,
                             lambda: '%s was rejected but the class is registered: tree_leaves(cls(), namespace=%r) = %r' % (D, ns, lv))
        return r
    finally:
        cleanup(new_track(), classes)


# ---- optree.functools.partial ---------------------------------------------------------------------------------------
# pspec: dict(f: 'plain' | 'lambda' | 'builtin' | 'fpartial' | 'opartial' | 'deep', args: [value kinds],
#             kw: [[name, value kind], ...] (names in sorted order), inner: index into INNER_VARIANTS)

INNER_VARIANTS = [((), ()), (('L',), ()), (('T',), (('ik', 'L'),)), (('L', 'N'), (('k1', 'D'),))]
PARTIAL_NS = ('', 'ns1', 'other')


def norm(x):
    """Structure with partial objects made comparable."""
    if isinstance(x, functools.partial):
        return ('PARTIAL', norm(tuple(x.args)), norm(dict(x.keywords)))
    if isinstance(x, tuple):
        return tuple(norm(c) for c in x)
    if isinstance(x, list):
        return [norm(c) for c in x]
    if isinstance(x, dict):
        return {k: norm(v) for k, v in x.items()}
    return x


def describe_partial(ps):
    f = {'plain': 'recfn', 'lambda': '<lambda>', 'builtin': 'operator.add',
         'fpartial': 'functools.partial(recfn, %s)', 'opartial': 'optree.functools.partial(recfn, %s)',
         'deep': 'optree.functools.partial(functools.partial(recfn, L), %s)'}[ps['f']]
    if '%s' in f:
        ia, ik = INNER_VARIANTS[ps['inner']]
        f = f % ', '.join(list(ia) + ['%s=%s' % kv for kv in ik])
    return 'optree.functools.partial(%s)' % ', '.join([f] + list(ps['args']) + ['%s=%s' % (n, k) for n, k in ps['kw']]) + \
        ' [L leaf, T (L, L), D {j: [L], k: L}, N None, E (), P optree partial(recfn, L, pk=L)]'


def build_partial(ps):
    args = [mkval(k, 'a%d' % i) for i, k in enumerate(ps['args'])]
    kw = {n: mkval(k, 'k.' + n) for n, k in ps['kw']}
    pre_args, pre_kw, inner = [], {}, None
    if ps['f'] == 'plain':
        f = recfn
    elif ps['f'] == 'lambda':
        f = LAMBDA
    elif ps['f'] == 'builtin':
        f = operator.add
    else:
        ia, ik = INNER_VARIANTS[ps['inner']]
        pre_args = [mkval(k, 'i%d' % i) for i, k in enumerate(ia)]
        pre_kw = {n: mkval(k, 'ik.' + n) for n, k in ik}
        if ps['f'] == 'fpartial':
            inner = functools.partial(recfn, *pre_args, **pre_kw)
        elif ps['f'] == 'opartial':
            inner = oft.partial(recfn, *pre_args, **pre_kw)
        else:
            deepest = Leaf('deep')
            inner = oft.partial(functools.partial(recfn, deepest), *pre_args, **pre_kw)
            pre_args = [deepest] + pre_args
        f = inner
    return f, inner, args, kw, pre_args, pre_kw


def expected_call(ps, pre_args, pre_kw, margs, mkw, extra, extra_kw):
    """What calling the partial must return, computed without any partial object."""
    pos = list(pre_args) + list(margs) + list(extra)
    kws = dict(pre_kw)
    kws.update(mkw)
    kws.update(extra_kw)
    if ps['f'] == 'lambda':
        return outcome(lambda: ('lam', tuple(pos), kws))
    if ps['f'] == 'builtin':
        return outcome(lambda: operator.add(*pos, **kws))
    return outcome(lambda: (tuple(pos), kws))


def check_partial(ps):
    r = Rec()
    D = r.context = describe_partial(ps)
    f, inner, args, kw, pre_args, pre_kw = build_partial(ps)
    info = {'nontrivial': bool(ref_flatten((tuple(args), kw), False))}
    KF, KN, KM = 'C19.partial_flattens_to_args_keywords', 'C19.partial_not_merged', 'C19.partial_tree_map_calls_same_function'
    ok, p = r.call('%s: construction' % D, lambda: oft.partial(f, *args, **kw))
    if not ok:
        return r, info
    calls = [((), {}), ((Leaf('x0'),), {'k1': Leaf('xk1'), 'xk': Leaf('xk')})]
    if ps['f'] == 'builtin':
        calls.append((tuple(Leaf('y%d' % i) for i in range(max(0, 2 - len(args)))), {}))
    # not merged / a functools.partial
    r.ck(type(p) is oft.partial and isinstance(p, functools.partial) and same_objects(p.args, args)
         and list(p.keywords) == list(kw) and all(p.keywords[k] is kw[k] for k in kw), KN,
         lambda: '%s: p.args = %r, p.keywords = %r, expected exactly the given arguments %r, %r' % (D, p.args, p.keywords, args, kw))
    if inner is None:
        r.ck(p.func is f, KF, lambda: '%s: p.func = %r, expected the wrapped callable %r' % (D, p.func, f))
    else:
        probe = (Leaf('z'),)
        a, b = outcome(lambda: norm(p.func(*probe))), outcome(lambda: norm(inner(*probe)))
        r.ck(p.func is not recfn and not isinstance(p.func, type(recfn)) and a == b and a[0] == 'ok', KN,
             lambda: '%s: p.func = %r must be the wrapped partial (not merged): p.func(z) -> %r, wrapped(z) -> %r' % (D, p.func, a, b))
    for extra, extra_kw in calls:
        a = outcome(lambda: norm(p(*extra, **extra_kw)))
        b = expected_call(ps, pre_args, pre_kw, norm(tuple(args)), norm(kw), extra, extra_kw)
        r.ck(a == b, KM, lambda: '%s: p(*%r, **%r) -> %r, expected %r' % (D, extra, extra_kw, a, b))
    for ns in PARTIAL_NS:
        for nil in (False, True):
            L = '%s, namespace=%r, none_is_leaf=%s' % (D, ns, nil)
            exp = ([(('args',) + q, v) for q, v in ref_flatten(tuple(args), nil)]
                   + [(('keywords',) + q, v) for q, v in ref_flatten(kw, nil)])
            exp_paths, exp_leaves = [q for q, _ in exp], [v for _, v in exp]
            ok, res = r.call('%s: tree_flatten' % L, lambda: optree.tree_flatten(p, none_is_leaf=nil, namespace=ns))
            if not ok:
                continue
            leaves, ts = res
            r.ck(same_objects(leaves, exp_leaves), KF,
                 lambda: '%s: tree_flatten leaves %r, expected the leaves of (args, keywords) %r' % (L, leaves, exp_leaves))
            okk, val = r.call('%s: treespec inspection' % L, lambda: (
                ts.kind == optree.PyTreeKind.CUSTOM and ts.type is oft.partial and ts.num_children == 2
                and list(ts.entries()) == ['args', 'keywords'] and ts.child(0).kind == optree.PyTreeKind.TUPLE
                and ts.child(0).num_children == len(args) and ts.child(1).kind == optree.PyTreeKind.DICT
                and list(ts.child(1).entries()) == sorted(kw)))
            if okk:
                r.ck(val, KF, lambda: '%s: treespec %r, expected a CUSTOM node of type optree.functools.partial with entries '
                                      "('args', 'keywords') over a tuple of %d and a dict with keys %r" % (L, ts, len(args), sorted(kw)))
            ok, paths = r.call('%s: tree_paths' % L, lambda: optree.tree_paths(p, none_is_leaf=nil, namespace=ns))
            if ok:
                r.ck(list(paths) == exp_paths, KF, lambda: '%s: tree_paths %r, expected %r' % (L, paths, exp_paths))
            ok, accs = r.call('%s: tree_accessors' % L, lambda: optree.tree_accessors(p, none_is_leaf=nil, namespace=ns))
            if ok:
                def accs_ok():
                    if len(accs) != len(exp):
                        return False
                    for acc, (q, v) in zip(accs, exp):
                        e0, code = acc[0], acc.codify('obj')
                        if not (acc(p) is v and isinstance(e0, optree.GetAttrEntry) and e0.name == q[0] and e0.entry == q[0]
                                and e0.type is oft.partial and tuple(acc.path) == q and code.startswith('obj.' + q[0])
                                and eval(code, {'obj': p}) is v):
                            return False
                    return True
                okk, val = r.call('%s: using the accessors %r' % (L, accs), accs_ok, KF)
                if okk:
                    r.ck(val, KF, lambda: '%s: accessors %r do not address the leaves %r through GetAttrEntry args / keywords' % (
                        L, accs, exp))
            ok, one = r.call('%s: tree_flatten_one_level' % L,
                             lambda: optree.tree_flatten_one_level(p, none_is_leaf=nil, namespace=ns))
            if ok:
                ch = list(one.children)
                r.ck(len(ch) == 2 and isinstance(ch[0], tuple) and same_objects(ch[0], args) and isinstance(ch[1], dict)
                     and list(ch[1]) == list(kw) and all(ch[1][k] is kw[k] for k in kw)
                     and tuple(one.entries) == ('args', 'keywords') and one.type is oft.partial
                     and one.path_entry_type is optree.GetAttrEntry and one.kind == optree.PyTreeKind.CUSTOM, KF,
                     lambda: '%s: tree_flatten_one_level children %r entries %r type %r path_entry_type %r, expected children '
                             "[args, keywords] = [%r, %r], entries ('args', 'keywords'), GetAttrEntry" % (
                                 L, ch, one.entries, one.type, one.path_entry_type, tuple(args), kw))
                if inner is None:
                    r.ck(one.metadata is f, KF, lambda: '%s: tree_flatten_one_level metadata %r, expected the wrapped callable '
                                                        '%r' % (L, one.metadata, f))
                else:
                    probe = (Leaf('z'),)
                    a, b = outcome(lambda: norm(one.metadata(*probe))), outcome(lambda: norm(inner(*probe)))
                    r.ck(one.metadata is not recfn and a == b and a[0] == 'ok' and outcome(lambda: one.metadata == inner) == ('ok', True),
                         KN, lambda: '%s: tree_flatten_one_level metadata %r must be the wrapped partial %r (not merged): '
                                     'metadata(z) -> %r, wrapped(z) -> %r' % (L, one.metadata, inner, a, b))
            ok, back = r.call('%s: tree_unflatten(treespec, leaves)' % L, lambda: optree.tree_unflatten(ts, leaves))
            if ok:
                def back_ok():
                    if type(back) is not oft.partial or back is p:
                        return False
                    if norm(tuple(back.args)) != norm(tuple(args)) or norm(dict(back.keywords)) != norm(kw):
                        return False
                    if [id(v) for _, v in ref_flatten((tuple(back.args), dict(back.keywords)), nil)] != [id(v) for v in exp_leaves]:
                        return False
                    return all(outcome(lambda: norm(back(*e, **ek))) == outcome(lambda: norm(p(*e, **ek))) for e, ek in calls)
                okk, val = r.call('%s: using the unflattened partial' % L, back_ok, KF)
                if okk:
                    r.ck(val, KF, lambda: '%s: tree_unflatten(*tree_flatten(p)) = %r, expected an optree partial with the same '
                                          'function, args %r and keywords %r' % (L, back, args, kw))
            ok, q = r.call('%s: tree_map(mark, p)' % L, lambda: optree.tree_map(mark, p, none_is_leaf=nil, namespace=ns))
            if ok:
                margs = tuple(ref_map(mark, a, nil) for a in args)
                mkw = {k: ref_map(mark, kw[k], nil) for k in kw}
                okk, val = r.call('%s: reading the mapped partial' % L, lambda: (
                    type(q) is oft.partial and norm(tuple(q.args)) == margs and norm(dict(q.keywords)) == mkw), KM)
                if okk:
                    r.ck(val, KM, lambda: '%s: tree_map(mark, p) = %r, expected an optree partial with args %r, keywords %r' % (
                        L, q, margs, mkw))
                    for extra, extra_kw in calls:
                        a = outcome(lambda: norm(q(*extra, **extra_kw)))
                        b = expected_call(ps, pre_args, pre_kw, margs, mkw, extra, extra_kw)
                        r.ck(a == b, KM, lambda: '%s: tree_map(mark, p)(*%r, **%r) -> %r, expected the same function called '
                                                 'with the mapped arguments: %r' % (L, extra, extra_kw, a, b))
    return r, info
# <<< core


# ----------------------------------------------------------------------------------------------------------------------
# enumeration

def _core_source() -> str:
    src = open(__file__).read()
    return src[src.index('\n# >>> core\n') + 1:src.index('\n# <<< core\n') + 1]


def _script(fn: str, spec, key: str) -> str:
    return (_core_source() + '\n\n'
            f'SPEC = {spec!r}\nKEY = {key!r}\n'
            'try:\n'
            f'    res = {fn}(SPEC)\n'
            '    rec = res[0] if isinstance(res, tuple) else res\n'
            'except Exception:\n'
            '    import traceback\n'
            '    traceback.print_exc()\n'
            '    sys.exit(2)   # the replay itself is broken - not a reproduction\n'
            'for k, w in rec.bad:\n'
            '    print(k, w)\n'
            'sys.exit(1 if any(k == KEY for k, _ in rec.bad) else 0)\n')


def _field_kinds():
    """(via, default, init, pytree_node) - every combination whose field() call itself is accepted."""
    kinds = []
    for default in 'nvf':
        for pn in (True, False, None):
            kinds.append(('o', default, True, pn))
        kinds.append(('o', default, False, False))
    kinds += [('p', 'n', True, None), ('p', 'v', True, None)]
    for default in 'nvf':
        for init in (True, False):
            kinds.append(('s', default, init, False))
    kinds += [('s', 'n', True, True), ('s', 'n', True, None), ('s', 'f', True, None),
              ('s', 'n', False, None), ('s', 'v', False, True)]      # the last two must be rejected at decoration
    return kinds


REDUCED = [('o', 'n', True, None), ('o', 'n', True, False), ('o', 'v', True, True), ('o', 'f', True, False),
           ('o', 'n', False, False), ('o', 'v', False, False), ('p', 'n', True, None), ('s', 'v', True, False)]
NAMES = 'abcd'
VALS = ['L', 'L', 'T', 'L', 'D', 'N', 'L', 'E', 'T', 'L']
OPTS8 = [dict(zip(('kw_only', 'slots', 'frozen'), bits)) for bits in itertools.product((False, True), repeat=3)]
OPTS8 = [{k: v for k, v in o.items() if v} for o in OPTS8]
OPTS_EXTRA = [{'eq': False}, {'order': True}, {'unsafe_hash': True}, {'eq': False, 'frozen': True},
              {'order': True, 'frozen': True, 'slots': True}, {'unsafe_hash': True, 'kw_only': True},
              {'match_args': False}, {'repr': False, 'slots': True}, {'slots': True, 'weakref_slot': True}]
OPTS_ALL = OPTS8 + OPTS_EXTRA


def _fs(name, kind, kw=None, val='L', **extra):
    via, default, init, pn = kind
    d = dict(name=name, via=via, default=default, init=init, pn=pn, kw=kw, val=val)
    d.update(extra)
    return d


def _fields(kinds, kws, i, seed, names=NAMES):
    return [_fs(names[j], k, kws[j] if k[0] != 'p' else None, VALS[(i * 7 + j * 3 + seed) % len(VALS)])
            for j, k in enumerate(kinds)]


def _layouts(tier: str, seed: int):
    """Yield (section, spec). Deterministic for (tier, seed)."""
    rng = random.Random(1000003 * seed + (1 if tier == 'quick' else 2))
    kinds = _field_kinds()
    quick = tier == 'quick'
    hows = ('deco', 'deco_factory')
    nss = ('ns1', 'G')
    i = 0

    # S1: one field, every kind x kw_only x every option set (x both namespaces in thorough)
    for k in kinds:
        for kw in ((None,) if k[0] == 'p' else (None, True, False)):
            for opts in OPTS_ALL:
                for ns in ((nss[i % 2],) if quick else nss):
                    i += 1
                    yield 'S1', dict(how=hows[i % 2], ns=ns, opts=opts, fields=_fields([k], [kw], i, seed))
    # make_dataclass (smallest first)
    mk = [('p', 'n', True, None), ('p', 'v', True, None), ('o', 'n', True, None), ('o', 'n', True, False),
          ('o', 'v', True, False), ('o', 'f', True, None), ('o', 'f', True, False), ('o', 'v', True, True),
          ('o', 'n', False, False), ('o', 'f', False, False), ('s', 'n', True, False), ('s', 'n', False, None)]
    mopts = OPTS_ALL if not quick else OPTS8 + OPTS_EXTRA[:3]
    for n in (1, 2) if quick else (1, 2, 3):
        for ks in itertools.product(mk if n < 3 else mk[:8], repeat=n):
            for t in range(2 if quick else (4 if n < 3 else 1)):
                i += 1
                opts = mopts[(i * 5 + t) % len(mopts)]
                fields = _fields(ks, [(None, True)[(i + j) % 5 == 0] for j in range(n)], i, seed)
                if fields[0]['via'] == 'p' and fields[0]['default'] == 'n' and i % 2:
                    fields[0]['bare'] = True
                spec = dict(how='make', ns=nss[i % 2], opts=opts, fields=fields)
                if i % 7 == 0:
                    spec['base'] = dict(kind='plain')
                elif i % 7 == 3:
                    spec['base'] = dict(kind='optree_same', ns=spec['ns'], fields=[_fs('x', ('o', 'n', True, (None, False)[i % 2]))])
                yield 'make', spec
    # inheritance
    obase = [[('o', 'n', True, None)], [('o', 'n', True, False)], [('o', 'v', True, False)],
             [('o', 'n', True, None), ('o', 'f', True, False)], [('o', 'n', False, False)], [('p', 'v', True, None)],
             [('o', 'n', True, False), ('o', 'n', True, None)]]
    sbase = [[('p', 'n', True, None)], [('s', 'n', True, False)], [('s', 'v', True, None)], [('s', 'n', False, None)],
             [('s', 'f', False, False)], [('s', 'n', True, False), ('p', 'n', True, None)]]
    bases = []
    for bf in obase:
        bases += [('optree_same', bf), ('optree_other', bf), ('optree_global', bf)]
    bases += [('stdlib', bf) for bf in sbase] + [('plain', None)]
    own_alpha = REDUCED if quick else kinds
    for n in (1, 2):
        for ks in itertools.product(own_alpha if n == 1 else REDUCED, repeat=n):
            for bkind, bf in bases:
                for t in range(1 if quick else 3):
                    i += 1
                    ns = nss[i % 2]
                    opts = OPTS_ALL[(i * 3 + t) % len(OPTS_ALL)]
                    names = NAMES if i % 11 else 'xbcd'      # sometimes the first own field overrides the base field x
                    spec = dict(how=hows[i % 2], ns=ns, opts=opts,
                                fields=_fields(ks, [(None, True, False)[(i + j) % 3] if i % 4 == 0 else None for j in range(n)],
                                               i, seed, names))
                    if bkind == 'plain':
                        spec['base'] = dict(kind='plain')
                    else:
                        bns = {'optree_same': ns, 'optree_other': 'ns2', 'optree_global': 'G', 'stdlib': None}[bkind]
                        if bkind == 'optree_global' and ns == 'G':
                            bns = 'ns1'
                        spec['base'] = dict(kind='optree' if bkind.startswith('optree') else 'stdlib', ns=bns,
                                            fields=[_fs('xy'[j], k, None, VALS[(i + j) % len(VALS)]) for j, k in enumerate(bf)])
                        if bkind.startswith('optree'):
                            spec['base']['kind'] = 'optree_same' if bns == ns else 'optree_other'
                    yield 'inherit', spec
    # S2: two fields
    for ks in itertools.product(kinds, repeat=2):
        for t in range(2 if quick else 4):
            i += 1
            yield 'S2', dict(how=hows[i % 2], ns=nss[(i // 2) % 2], opts=OPTS_ALL[(i * 5 + t * 3) % len(OPTS_ALL)],
                             fields=_fields(ks, [None, None], i, seed))
    for ks in itertools.product(REDUCED if quick else kinds, repeat=2):
        for kws in itertools.product((None, True, False), repeat=2):
            if kws == (None, None):
                continue
            for t in range(2 if quick else 1):
                i += 1
                yield 'S2kw', dict(how=hows[i % 2], ns=nss[(i // 2) % 2], opts=OPTS8[(i + t * 3) % len(OPTS8)],
                                   fields=_fields(ks, kws, i, seed))
    # S3: three fields
    for ks in itertools.product(REDUCED if quick else kinds, repeat=3):
        for t in range(1 if quick else 2):
            i += 1
            kws = [None, None, None] if i % 3 else [(None, True, False)[(i // 3 + j) % 3] for j in range(3)]
            yield 'S3', dict(how=hows[i % 2], ns=nss[(i // 2) % 2], opts=OPTS_ALL[(i * 5 + t * 7) % len(OPTS_ALL)],
                             fields=_fields(ks, kws, i, seed))
    # S4 (thorough): four fields over the reduced alphabet
    if not quick:
        for ks in itertools.product(REDUCED, repeat=4):
            i += 1
            kws = [None] * 4 if i % 3 else [(None, True, False)[(i // 3 + j) % 3] for j in range(4)]
            yield 'S4', dict(how=hows[i % 2], ns=nss[(i // 2) % 2], opts=OPTS_ALL[(i * 5) % len(OPTS_ALL)],
                             fields=_fields(ks, kws, i, seed))
    # seeded random layouts over the full alphabet (3 fields quick, 3-4 fields thorough), until the budget is used
    for _ in range(1500 if quick else 40000):
        i += 1
        n = 3 if quick else rng.choice((3, 4, 4))
        # bias towards layouts stdlib accepts: required fields first
        ks = [rng.choice(kinds) for _ in range(n)]
        if rng.random() < 0.7:
            ks.sort(key=lambda k: (k[1] != 'n' and k[2]))
        kws = [rng.choice((None, None, True, False)) for _ in range(n)]
        spec = dict(how=rng.choice(hows + ('make',)) if rng.random() < 0.9 else 'make', ns=rng.choice(nss),
                    opts=rng.choice(OPTS_ALL), fields=_fields(ks, kws, i, seed))
        yield 'random', spec


def _partials(tier: str, seed: int):
    quick = tier == 'quick'
    vk = ['L', 'T', 'D', 'N', 'E']
    arg_sets = [()] + [(a,) for a in vk] + list(itertools.product(vk, repeat=2))
    kw_sets = [()] + [((n, a),) for n in ('k1', 'k2') for a in vk] + \
              [(('k1', a), ('k2', b)) for a, b in itertools.product(vk, repeat=2)]
    i = 0
    for f in ('plain', 'lambda', 'builtin', 'fpartial', 'opartial', 'deep'):
        for args in arg_sets:
            for kw in kw_sets:
                i += 1
                if quick and len(args) == 2 and len(kw) == 2 and (i + seed) % 4:
                    continue      # quick: a quarter of the 2 x 2 combinations (thinned by seed)
                if f == 'deep' and (i + seed) % 3:
                    continue
                yield dict(f=f, args=list(args), kw=[list(x) for x in kw], inner=i % len(INNER_VARIANTS))
    # partial objects as arguments (pytree-valued arguments that are themselves partial nodes)
    for f in ('plain', 'fpartial', 'opartial'):
        for args in [('P',), ('P', 'L'), ('T', 'P'), ('P', 'P')]:
            for kw in [(), (('k1', 'P'),), (('k1', 'L'), ('k2', 'P'))]:
                i += 1
                yield dict(f=f, args=list(args), kw=[list(x) for x in kw], inner=i % len(INNER_VARIANTS))


def _rejections():
    for default in 'nvf':
        for kw in (None, True, False):
            for pn in (True, None, False):
                yield dict(kind='field_noninit', default=default, kw=kw, pn=pn)
            yield dict(kind='field_noninit', default=default, kw=kw, pn=None, meta={'pytree_node': False})
            yield dict(kind='field_noninit', default=default, kw=kw, pn=None, meta={'pytree_node': True})
            yield dict(kind='field_noninit', default=default, kw=kw, pn=True, meta={'pytree_node': False})
            yield dict(kind='field_noninit', default=default, kw=kw, pn=None, meta={'other': 1})
    for form in ('deco', 'deco_factory', 'deco_opts', 'make', 'make_ns'):
        yield dict(kind='empty_namespace', form=form)
    for value in BAD_NAMESPACES:
        for form in ('deco', 'deco_factory', 'make'):
            yield dict(kind='non_str_namespace', form=form, value=value)
    for value in NON_CLASSES:
        for form in ('deco', 'factory'):
            for ns in ('ns1', 'G'):
                yield dict(kind='non_class', form=form, value=value, ns=ns)
    for first in ('ns1', 'G'):
        for second in ('ns1', 'G', 'ns2'):
            for form in ('deco', 'factory'):
                for opts in ({}, {'frozen': True}, {'slots': True}):
                    yield dict(kind='twice', form=form, first=first, second=second, opts=opts)


def _run(ctx: U.Ctx, tier: str, seed: int) -> BoundedReport:
    counts: dict = {}
    status: dict = {}
    sampled: set = set()

    def record(fn, spec, rec):
        ctx.count(rec.evals)
        seen = set()
        for key, what in rec.bad:
            if key in seen:
                continue          # one finding per clause and input (the first symptom)
            seen.add(key)
            ctx.fail(key, what, lambda key=key: _script(fn, spec, key), {'spec': spec, 'checker': fn})

    # rejections that do not depend on a layout
    for rs in _rejections():
        ctx.progress('check_rejection(%r)' % (rs,))
        record('check_rejection', rs, check_rejection(rs))
        counts['rejections'] = counts.get('rejections', 0) + 1

    # partial: given a third of the budget at most
    complete = True
    part_deadline = ctx.t0 + (ctx.deadline - ctx.t0) * 0.3
    n_part = 0
    import time as _time
    for ps in _partials(tier, seed):
        if _time.time() > part_deadline:
            ctx.truncated = True
            complete = False
            break
        ctx.progress('check_partial(%r)' % (ps,))
        rec, info = check_partial(ps)
        record('check_partial', ps, rec)
        n_part += 1
        if info['nontrivial']:
            ctx.mark_nontrivial('partial:' + repr(ps))
        if n_part in (40, 700):
            ctx.sample(describe_partial(ps).split(' [L leaf')[0])

    n_lay = 0
    for section, spec in _layouts(tier, seed):
        if n_lay % 32 == 0 and ctx.out_of_time():
            complete = False
            break
        ctx.progress('check_layout(%r)' % (spec,))
        rec, info = check_layout(spec)
        st = info['status'].split(':')[0]
        status[st] = status.get(st, 0) + 1
        if st == 'twin_rejected':
            continue
        n_lay += 1
        counts[section] = counts.get(section, 0) + 1
        record('check_layout', spec, rec)
        if info['nontrivial']:
            ctx.mark_nontrivial(describe(spec))
            if section in ('make', 'inherit', 'S2', 'S3') and section not in sampled and counts[section] >= 40:
                sampled.add(section)
                ctx.sample(describe(spec))

    ctx.notes.append(
        'layout outcomes: %s; layouts that the stdlib decorator itself rejects on the twin (%d) are outside the scope and not '
        'counted. Not checked (not promised by the statement): the exact format of the metadata (only: it holds the values '
        'of the other init fields and no child); treespec.namespace; __dataclass_params__; init=False as a decorator '
        'option; the ns/namespace argument swap of make_dataclass; applying the optree decorator to a class that already '
        'is a stdlib dataclass; mutation of non-init fields between flatten and unflatten; dataclass(namespace=..)(None). '
        'rejects_non_class / rejects_non_str_namespace come from the documented signature (TypeError), not from the '
        'property statement. For make_dataclass the clause keys are C19.make_dataclass_layout (children / metadata / '
        'entries / accessors), C19.make_dataclass_same_class_as_stdlib and C19.make_dataclass_unexpected_exception'
        % (dict(sorted(status.items())), status.get('twin_rejected', 0)))
    return ctx.report(
        rule='non-trivial = a layout with at least one pytree_node field and at least one other field (metadata or non-init) '
             'that is accepted, or a partial with at least one leaf in (args, keywords); distinct by the full description '
             '(fields, flags, options, namespace, base, value shapes). One evaluation = one clause instance: a decoration '
             'outcome, one comparison with the stdlib twin, or one observation (tree_flatten / entries / paths / accessors / '
             'one_level / unflatten / tree_map / call) against the expectation derived from the declaration',
        scope='%d accepted-by-stdlib layouts: %s (fields: optree field() default{none,value,factory} x init x pytree_node'
              '{True,False,None}, plain annotations, stdlib field() with/without pytree_node metadata; kw_only per field; '
              'options kw_only/slots/frozen exhaustively + eq/order/unsafe_hash/match_args/repr/weakref_slot; namespaces '
              'GLOBAL and ns1; decorator call and decorator factory; base = optree dataclass in the same / another / the '
              'global namespace, stdlib dataclass, plain class; values leaf / tuple / dict / None / (); observed with '
              'none_is_leaf in {False, True} in namespaces \'\', ns1, ns2, other); %d argument-fault rejections; %d partials '
              '(function, lambda, operator.add, functools.partial, optree partial, 3 levels) x 0..2 positional x 0..2 keyword '
              'pytrees (leaf, tuple, dict, None, (), nested optree partial) x namespaces \'\', ns1, other x none_is_leaf'
              % (n_lay, ', '.join('%s=%d' % kv for kv in counts.items() if kv[0] != 'rejections'),
                 counts.get('rejections', 0), n_part),
        exhaustive=complete)


def run(tier: str, seed: int) -> BoundedReport:
    budget = 40 if tier == 'quick' else 660
    return U.run_isolated('c19_dataclass', 'C19', tier, seed, budget_s=budget, hard_timeout_s=budget * 2 + 60)
