"""C19 - optree dataclasses and optree.functools.partial are faithful pytree nodes (bounded contract monitor).

Part A (optree.dataclasses.dataclass / make_dataclass / field): every field layout of the stated scope is built
twice from the same description on FRESH classes - once with optree's decorator in namespace N, once with the
stdlib decorator (the "twin").  The oracle is the property statement + stdlib `dataclasses` semantics observed on
the twin: children = values of the fields *declared* pytree_node (in `dataclasses.fields(twin)` order), metadata =
the other init fields, entries / paths / accessors = field names, round trip equal with `__post_init__` re-run, a
leaf in every namespace where it is not registered, the documented rejections, and "otherwise the class
dataclasses.dataclass would produce" = observable equality with the twin.

Part B (optree.functools.partial): flattening to (args, keywords) in every namespace with the wrapped callable as
metadata, no merging with a nested partial, and `tree_map` rebuilding a partial that calls the same function with
the mapped arguments (checked with a recording function against an independently computed call).

The part between the core markers is self-contained (optree + stdlib only) and is copied verbatim into the replay
scripts, so a replay executes exactly the code of the monitor.
"""
from __future__ import annotations

import itertools
import random

from ocv.bounded import _util_c as U
from ocv.result import BoundedReport

# >>> core
import dataclasses
import functools
import inspect
import operator
import sys

import optree
import optree.dataclasses as odc
import optree.functools as oft
import optree.registry as _registry

GLOBAL = next(v for k, v in vars(_registry).items() if k.endswith('__GLOBAL_NAMESPACE'))
NS_ARG = {'G': GLOBAL, 'ns1': 'ns1', 'ns2': 'ns2'}
ALL_NS = ('', 'ns1', 'ns2', 'other')
CLS_NAME = 'Rec19'
MAKE_KEYS = {
    'C19.flatten_children_in_declaration_order': 'C19.make_dataclass_layout',
    'C19.metadata_fields_preserved': 'C19.make_dataclass_layout',
    'C19.entries_are_field_names': 'C19.make_dataclass_layout',
    'C19.accessors_address_leaves': 'C19.make_dataclass_layout',
    'C19.same_class_as_stdlib': 'C19.make_dataclass_same_class_as_stdlib',
    'C19.unexpected_exception': 'C19.make_dataclass_unexpected_exception',
}


class Leaf:
    """A leaf object: distinct objects, equal iff same tag (so values made by a default_factory compare equal)."""
    __slots__ = ('tag',)

    def __init__(self, tag):
        self.tag = tag

    def __repr__(self):
        return 'L<%s>' % (self.tag,)

    def __eq__(self, other):
        return isinstance(other, Leaf) and other.tag == self.tag

    def __hash__(self):
        return hash(('Leaf', self.tag))

    def __lt__(self, other):
        if not isinstance(other, Leaf):
            return NotImplemented
        return self.tag < other.tag

    def __add__(self, other):
        return ('sum', self, other)


def recfn(*args, **kwargs):
    """The recording function: returns the arguments it was called with."""
    return (args, kwargs)


LAMBDA = lambda *a, **k: ('lam', a, k)   # noqa: E731


def mkval(kind, tag):
    if kind == 'L':
        return Leaf(tag)
    if kind == 'T':
        return (Leaf(tag + '.0'), Leaf(tag + '.1'))
    if kind == 'D':
        return {'j': [Leaf(tag + '.j0')], 'k': Leaf(tag + '.k')}
    if kind == 'N':
        return None
    if kind == 'E':
        return ()
    if kind == 'P':
        return oft.partial(recfn, Leaf(tag + '.p0'), pk=Leaf(tag + '.pk'))
    raise AssertionError(kind)


def ref_flatten(x, nil):
    """Independent reference: list of (path, leaf) of the pytrees this monitor builds (tuple, list, dict with
    keys inserted in sorted order, None, optree partial, anything else = leaf)."""
    if x is None:
        return [((), None)] if nil else []
    if isinstance(x, (tuple, list)):
        return [((i,) + p, v) for i, c in enumerate(x) for p, v in ref_flatten(c, nil)]
    if isinstance(x, dict):
        return [((k,) + p, v) for k in sorted(x) for p, v in ref_flatten(x[k], nil)]
    if isinstance(x, oft.partial):
        return ([(('args',) + p, v) for p, v in ref_flatten(x.args, nil)]
                + [(('keywords',) + p, v) for p, v in ref_flatten(x.keywords, nil)])
    return [((), x)]


def ref_map(g, x, nil):
    if x is None:
        return g(None) if nil else None
    if isinstance(x, tuple):
        return tuple(ref_map(g, c, nil) for c in x)
    if isinstance(x, list):
        return [ref_map(g, c, nil) for c in x]
    if isinstance(x, dict):
        return {k: ref_map(g, x[k], nil) for k in sorted(x)}
    if isinstance(x, oft.partial):
        return ('PARTIAL', ref_map(g, x.args, nil), ref_map(g, x.keywords, nil))
    return g(x)


def mark(x):
    return Leaf('m:' + (x.tag if isinstance(x, Leaf) else repr(x)))


def same_objects(a, b):
    return len(a) == len(b) and all(x is y for x, y in zip(a, b))


def outcome(fn):
    """('ok', value) or ('exc', exception type name): used to compare behaviour of the class with its twin."""
    try:
        return ('ok', fn())
    except Exception as e:   # noqa: BLE001 - the outcome is compared, not ignored
        return ('exc', type(e).__name__)


def show_exc(e):
    return '%s: %s' % (type(e).__name__, ' '.join(str(e).split())[:200])


class Rec:
    """Collects contract evaluations of one case."""

    def __init__(self, keymap=None):
        self.evals = 0
        self.bad = []
        self.keymap = keymap or {}

    def ck(self, ok, key, what):
        self.evals += 1
        if not ok:
            self.bad.append((self.keymap.get(key, key), what() if callable(what) else what))
        return ok

    def call(self, label, fn, key='C19.unexpected_exception'):
        """Run an optree call the contract does not allow to raise. -> (ok, value)"""
        self.evals += 1
        try:
            return True, fn()
        except Exception as e:   # noqa: BLE001 - recorded as a violation
            self.bad.append((self.keymap.get(key, key), '%s raised %s' % (label, show_exc(e))))
            return False, None


# ---- field layouts --------------------------------------------------------------------------------------------
# field spec: dict(name, via: 'o' optree field() | 'p' plain annotation (+ default value) | 's' stdlib field(),
#                  default: 'n' | 'v' | 'f', init: bool, pn: True | False | None, kw: None | True | False,
#                  val: value kind of mkval, bare: bool (make_dataclass only: field given as a bare name))

def declared_pytree_node(fs):
    """What the declaration says (statement: pytree_node defaults to True)."""
    return True if fs.get('pn') is None else bool(fs['pn'])


def field_call_rejected(fs):
    """optree.dataclasses.field(init=False) with pytree_node True / default: the field() call itself must raise."""
    return fs['via'] == 'o' and not fs.get('init', True) and declared_pytree_node(fs)


def default_of(name):
    return Leaf('def:' + name)


_FACTORIES = {}


def factory_of(name):
    if name not in _FACTORIES:
        _FACTORIES[name] = lambda name=name: Leaf('fac:' + name)
    return _FACTORIES[name]


def field_object(fs, lib):
    """-> (has_class_attribute, value). lib: 'optree' (the class under test) | 'stdlib' (the twin)."""
    name = fs['name']
    if fs['via'] == 'p':
        return (True, default_of(name)) if fs['default'] == 'v' else (False, None)
    kw = {}
    if fs['default'] == 'v':
        kw['default'] = default_of(name)
    elif fs['default'] == 'f':
        kw['default_factory'] = factory_of(name)
    if not fs.get('init', True):
        kw['init'] = False
    if fs.get('kw') is not None:
        kw['kw_only'] = fs['kw']
    if fs['via'] == 'o' and lib == 'optree':
        if fs.get('pn') is not None:
            kw['pytree_node'] = fs['pn']
        return True, odc.field(**kw)
    if fs.get('pn') is not None:
        kw['metadata'] = {'pytree_node': fs['pn']}
    return True, dataclasses.field(**kw)


def make_post_init():
    def __post_init__(self):
        cls = type(self)
        cls._pc[0] += 1
        fl = dataclasses.fields(cls)
        init_names = [f.name for f in fl if f.init]
        for f in fl:
            if not f.init and f.default is dataclasses.MISSING and f.default_factory is dataclasses.MISSING:
                object.__setattr__(self, f.name, ('post', tuple(getattr(self, n) for n in init_names)))
    return __post_init__


def plain_base():
    class PlainBase:
        tag = 'plain-base'

        def hello(self):
            return 'hello'
    return PlainBase


def build_class(spec, lib, track):
    """Build the class of `spec` with optree (lib='optree') or its stdlib twin (lib='stdlib').

    track = {'reg': [(class, namespace symbol) that were registered, for the cleanup], 'raw': undecorated class}."""
    registered = track['reg']
    opts = dict(spec.get('opts') or {})
    base_spec = spec.get('base')
    bases = ()
    if base_spec is not None:
        kind = base_spec['kind']
        if kind == 'plain':
            bases = (plain_base(),)
        else:
            body = {'__annotations__': {}, '__qualname__': 'Base19', '__module__': 'c19'}
            for fs in base_spec['fields']:
                body['__annotations__'][fs['name']] = object
                has, v = field_object(fs, lib if kind.startswith('optree') else 'stdlib')
                if has:
                    body[fs['name']] = v
            b = type('Base19', (), body)
            bopts = {k: v for k, v in opts.items() if k in ('frozen', 'kw_only')}
            if lib == 'optree' and kind.startswith('optree'):
                bns = base_spec['ns']
                b = odc.dataclass(b, namespace=NS_ARG[bns], **bopts)
                registered.append((b, bns))
            else:
                b = dataclasses.dataclass(b, **bopts)
            bases = (b,)
    extra = {'_pc': [0], '__post_init__': make_post_init(), 'method19': lambda self: 'm19'}
    if spec['how'] == 'make':
        flist = []
        for fs in spec['fields']:
            has, v = field_object(fs, lib)
            if fs.get('bare'):
                flist.append(fs['name'])
            elif has:
                flist.append((fs['name'], object, v))
            else:
                flist.append((fs['name'], object))
        if lib == 'optree':
            cls = odc.make_dataclass(CLS_NAME, flist, bases=bases, ns=extra, namespace=NS_ARG[spec['ns']],
                                     module='c19', **opts)
            registered.append((cls, spec['ns']))
        else:
            cls = dataclasses.make_dataclass(CLS_NAME, flist, bases=bases, namespace=extra, module='c19', **opts)
        return cls
    body = {'__annotations__': {}, '__qualname__': CLS_NAME, '__module__': 'c19'}
    body.update(extra)
    for fs in spec['fields']:
        body['__annotations__'][fs['name']] = object
        has, v = field_object(fs, lib)
        if has:
            body[fs['name']] = v
    raw = type(CLS_NAME, bases, body)
    track['raw'] = raw
    if lib == 'stdlib':
        return dataclasses.dataclass(raw, **opts)
    if spec['how'] == 'deco_factory':
        cls = odc.dataclass(namespace=NS_ARG[spec['ns']], **opts)(raw)
    else:
        cls = odc.dataclass(raw, namespace=NS_ARG[spec['ns']], **opts)
    registered.append((cls, spec['ns']))
    return cls


def new_track():
    return {'reg': [], 'raw': None}


def cleanup(track, extra_classes=()):
    """Bring the registry back (not part of the oracle)."""
    for cls, ns in track['reg']:
        try:
            optree.unregister_pytree_node(cls, namespace=NS_ARG[ns])
        except Exception:   # noqa: BLE001 - cleanup only
            pass
    for cls in extra_classes:
        for ns in ('G', 'ns1', 'ns2'):
            try:
                optree.unregister_pytree_node(cls, namespace=NS_ARG[ns])
            except Exception:   # noqa: BLE001 - cleanup only
                pass


def show_field(fs):
    if fs['via'] == 'p':
        return '%s%s' % (fs['name'], '=default' if fs['default'] == 'v' else '') + (' [bare name]' if fs.get('bare') else '')
    a = []
    if fs['default'] == 'v':
        a.append('default=..')
    if fs['default'] == 'f':
        a.append('default_factory=..')
    if not fs.get('init', True):
        a.append('init=False')
    if fs.get('kw') is not None:
        a.append('kw_only=%s' % fs['kw'])
    if fs['via'] == 'o':
        if fs.get('pn') is not None:
            a.append('pytree_node=%s' % fs['pn'])
        return '%s=optree.field(%s)' % (fs['name'], ', '.join(a))
    if fs.get('pn') is not None:
        a.append("metadata={'pytree_node': %s}" % fs['pn'])
    return '%s=dataclasses.field(%s)' % (fs['name'], ', '.join(a))


def describe(spec):
    opts = ', '.join('%s=%s' % kv for kv in sorted((spec.get('opts') or {}).items()))
    how = {'deco': 'optree.dataclasses.dataclass(cls, ', 'deco_factory': 'optree.dataclasses.dataclass(',
           'make': 'optree.dataclasses.make_dataclass(name, fields, '}[spec['how']]
    s = '%snamespace=%s%s)' % (how, 'GLOBAL' if spec['ns'] == 'G' else repr(spec['ns']), (', ' + opts) if opts else '')
    s += ' fields [%s]' % '; '.join(show_field(f) for f in spec['fields'])
    s += ' values %s' % ''.join(f.get('val', 'L') for f in spec['fields'])
    b = spec.get('base')
    if b is not None:
        if b['kind'] == 'plain':
            s += ' base=plain class'
        else:
            s += ' base=%s dataclass%s [%s]' % (
                'optree' if b['kind'].startswith('optree') else 'stdlib',
                (' in namespace %s' % ('GLOBAL' if b['ns'] == 'G' else repr(b['ns']))) if b['kind'].startswith('optree') else '',
                '; '.join(show_field(f) for f in b['fields']))
    return s
# @@PART2@@
