"""C20 - tree_ravel and its unravel function are mutually inverse (bounded monitor).

Scope: trees with 0..4 array leaves placed in fixed skeletons (all node kinds, dict keys out of order, None nodes,
a custom node that exists only in a namespace) x leaf shapes of rank 0..3 incl. zero-size x dtypes {bool, int8, int32,
int64, float32, float64, complex64} x none_is_leaf x namespace x backend {numpy, jax, torch}.

Oracle (clauses of the property statement; the reference is computed with numpy from the *inputs*, independently of
optree: the leaf order of every skeleton is known by construction):
  flat       tree_ravel(t)[0] is 1-D, has the backend's promoted dtype of the leaf dtypes and equals the concatenation, in
             leaf order, of the raveled leaves converted to that dtype (shape (0,) for no leaves);
  roundtrip  unravel(flat) has the original structure, every leaf its original shape, dtype and values;
  slices     unravel(v) for another 1-D array v of the same length and dtype puts v[off_i : off_i+size_i].reshape(shape_i)
             (converted to dtype_i) at leaf i;  ravel(unravel(v)) == v  (v representable in all leaf dtypes);
  rejects    wrong length, rank 0 and rank 2 inputs => ValueError; wrong dtype => ValueError when the leaves had mixed dtypes.
Each backend runs in its own child process (import cost, isolation); the check code is the string `LIB`, which is also
embedded in every replay script, so replays are self-contained.
"""
from __future__ import annotations

import itertools
import json
import random
import sys
import time

from ocv.bounded import _util_d as U
from ocv.result import BoundedReport, Finding

SHAPES = [(), (0,), (1,), (3,), (2, 3), (0, 2), (1, 1), (2, 1, 2), (2, 0, 3)]
DTYPES = ['bool', 'int8', 'int32', 'int64', 'float32', 'float64', 'complex64']
SKELETONS = {   # name -> number of leaves it can hold (None = any)
    'bare': 1, 'list': None, 'tuple': None, 'dict_rev': None, 'nested': None, 'with_none': None, 'odict_deque': None,
    'namedtuple': 2, 'custom_ns': None, 'custom_global': None, 'ddict': None,
}

LIB = r'''
import sys, functools, warnings, collections
warnings.filterwarnings('ignore', message='Casting complex values to real')   # the reference's own down-casts (imaginary part is 0)
from collections import OrderedDict, defaultdict, deque, namedtuple
import numpy as np
import optree
from ocv.bounded import scope as S

S.ensure_registered()
Pair = namedtuple('Pair', ['first', 'second'])

# ---------------------------------------------------------------- backends
class Numpy:
    name = 'numpy'
    def __init__(self, x64=True):
        import optree.integration.numpy as m
        self.m = m
    def mk(self, a): return np.array(a)
    def to_np(self, x): return np.asarray(x)
    def dtype_name(self, x): return str(x.dtype)
    def promote(self, names): return str(np.result_type(*[np.dtype(n) for n in names]))
    def is_array(self, x): return isinstance(x, np.ndarray)
    def shape(self, x): return tuple(x.shape)

class Jax:
    name = 'jax'
    def __init__(self, x64=True):
        import jax
        jax.config.update('jax_enable_x64', bool(x64))
        import jax.numpy as jnp
        import optree.integration.jax as m
        self.m, self.jnp, self.jax = m, jnp, jax
    def mk(self, a):
        with warnings.catch_warnings():
            warnings.simplefilter('ignore')        # without x64 the 64-bit dtypes are truncated by jax itself
            return self.jnp.asarray(a)
    def to_np(self, x): return np.asarray(x)
    def dtype_name(self, x): return str(x.dtype)
    def promote(self, names): return str(functools.reduce(self.jnp.promote_types, [self.jnp.dtype(n) for n in names]))
    def is_array(self, x): return isinstance(x, self.jax.Array)
    def shape(self, x): return tuple(x.shape)

class Torch:
    name = 'torch'
    def __init__(self, x64=True):
        import torch
        import optree.integration.torch as m
        self.m, self.torch = m, torch
    def mk(self, a): return self.torch.from_numpy(np.array(a))
    def to_np(self, x): return x.detach().numpy()
    def dtype_name(self, x): return str(x.dtype).replace('torch.', '')
    def promote(self, names):
        t = self.torch
        return str(functools.reduce(t.promote_types, [getattr(t, n) for n in names])).replace('torch.', '')
    def is_array(self, x): return self.torch.is_tensor(x)
    def shape(self, x): return tuple(x.shape)

BACKENDS = {'numpy': Numpy, 'jax': Jax, 'torch': Torch}
_backend_cache = {}
def backend(name, x64):
    if (name, x64) not in _backend_cache:
        _backend_cache[(name, x64)] = BACKENDS[name](x64)
    return _backend_cache[(name, x64)]

# ---------------------------------------------------------------- inputs
def np_leaf(shape, dtype, i):
    """deterministic values that are exactly representable in `dtype`"""
    n = int(np.prod(shape)) if len(shape) else 1
    base = np.arange(n, dtype=np.int64) + 1 + 3 * i
    if dtype == 'bool': v = (base % 2 == 0)
    elif dtype == 'int8': v = base % 100
    elif dtype == 'complex64': v = base + 1j * (base % 3)
    else: v = base
    return np.asarray(v).astype(dtype).reshape(shape)

def skeleton(name, xs):
    """tree holding the leaves xs in this leaf order (by construction: sequence order, sorted dict keys, OrderedDict
    insertion order, None is a childless node unless none_is_leaf)"""
    n = len(xs)
    if name == 'bare': return xs[0]
    if name == 'list': return list(xs)
    if name == 'tuple': return tuple(xs)
    if name == 'dict_rev':           # inserted in reverse, flattened in sorted key order
        return {('k%d' % i): xs[i] for i in reversed(range(n))}
    if name == 'nested':
        if n == 0: return ((), [{}])
        return (xs[0], [{'b': list(xs[2:]), 'a': xs[1]}] if n > 1 else [])
    if name == 'with_none':
        return {'a': None, 'b': (xs[0] if n else None, None), 'c': list(xs[1:]), 'd': {}}
    if name == 'odict_deque':        # OrderedDict keeps insertion order: z first, then a
        return OrderedDict([('z', deque(xs[:1], maxlen=3)), ('a', tuple(xs[1:]))])
    if name == 'namedtuple': return Pair(xs[0], [xs[1]])
    if name == 'ddict':
        d = defaultdict(list)
        for i in reversed(range(n)): d[i] = xs[i]          # int keys, sorted on flatten
        return [d]
    if name == 'custom_ns': return S.CustomN([xs[0], tuple(xs[1:])] if n else [])
    if name == 'custom_global': return {'c': S.CustomE(list(xs), meta='meta'), 'e': S.CustomF((), meta=1)}
    raise AssertionError(name)

def same(b, x, ref_np, dtype_name):
    """x is an array of backend b with exactly this shape, dtype and these values"""
    if not b.is_array(x): return 'not a %s array: %r' % (b.name, type(x))
    if b.shape(x) != tuple(ref_np.shape): return 'shape %r, expected %r' % (b.shape(x), tuple(ref_np.shape))
    if b.dtype_name(x) != dtype_name: return 'dtype %s, expected %s' % (b.dtype_name(x), dtype_name)
    got = b.to_np(x)
    if not np.array_equal(got, ref_np.astype(got.dtype)): return 'values %r, expected %r' % (got.tolist(), ref_np.tolist())
    return None

def check_case(case):
    """-> (number of clause evaluations, [violation strings])"""
    b = backend(case['backend'], case.get('x64', True))
    nil, ns = case['nil'], case['ns']
    specs = [(tuple(s), d) for s, d in case['leaves']]
    np_leaves = [np_leaf(s, d, i) for i, (s, d) in enumerate(specs)]
    leaves = [b.mk(a) for a in np_leaves]
    # the dtypes the backend actually gave the leaves (jax without x64 narrows 64-bit types)
    dnames = [b.dtype_name(x) for x in leaves]
    np_leaves = [a.astype(b.to_np(x).dtype) for a, x in zip(np_leaves, leaves)]
    tree = skeleton(case['skeleton'], leaves)
    out, n = [], 0
    where = '%s tree_ravel(%s of %s, none_is_leaf=%s, namespace=%r)' % (
        b.name, case['skeleton'], ['%s%s' % (d, list(s)) for s, d in specs], nil, ns)
    def bad(clause, msg): out.append('[%s] %s: %s' % (clause, where, msg))
    try:
        flat, unravel = b.m.tree_ravel(tree, none_is_leaf=nil, namespace=ns)
    except BaseException as e:
        bad('unexpected_exception', 'tree_ravel raised %s: %s' % (type(e).__name__, str(e)[:200]))
        return 1, out
    total = sum(a.size for a in np_leaves)
    # ---- clause flat
    n += 1
    if not leaves:
        if not b.is_array(flat) or b.shape(flat) != (0,):
            bad('flat', 'no leaves: expected an empty 1-D array, got %r' % (flat,))
        promoted = b.dtype_name(flat)
        expected = np.zeros(0, dtype=b.to_np(flat).dtype)
    else:
        promoted = b.promote(dnames)
        np_promoted = b.to_np(b.mk(np.zeros(0, dtype=promoted if promoted != 'bfloat16' else 'float32'))).dtype
        expected = np.concatenate([a.ravel().astype(np_promoted) for a in np_leaves])
        err = same(b, flat, expected, promoted)
        if err: bad('flat', 'flat array has ' + err)
    # ---- clause roundtrip
    n += 1
    try:
        back = unravel(flat)
    except BaseException as e:
        bad('roundtrip', 'unravel(flat) raised %s: %s' % (type(e).__name__, str(e)[:200]))
        return n, out
    def index_of(a):            # leaves are distinct objects: identity tells which leaf the reference walk is at
        return next((i for i, x in enumerate(leaves) if x is a), None)
    seen = []
    def leaf_eq(a, c):
        i = index_of(a)
        seen.append(i)
        return i is not None and same(b, c, np_leaves[i], dnames[i]) is None
    if not S.same_tree(tree, back, leaf_eq) or sorted(seen) != list(range(len(leaves))):
        bad('roundtrip', 'unravel(flat) = %r is not the original tree %r (structure, leaf shapes, dtypes or values differ)' % (back, tree))
    # ---- clause slices / inverse
    if leaves:
        has_bool = 'bool' in dnames
        v_np = ((np.arange(total) + 1) % (2 if has_bool else 5)).astype(expected.dtype)
        v = b.mk(v_np)
        n += 1
        try:
            t2 = unravel(v)
        except BaseException as e:
            bad('slices', 'unravel(v) for another array of the same length and dtype raised %s: %s' % (type(e).__name__, str(e)[:200]))
            t2 = None
        if t2 is not None:
            offs = [0]
            for a in np_leaves: offs.append(offs[-1] + a.size)
            seen2 = []
            def leaf_eq2(a, c):
                i = index_of(a)
                seen2.append(i)
                if i is None: return False
                ref = v_np[offs[i]: offs[i + 1]].reshape(np_leaves[i].shape).astype(np_leaves[i].dtype)
                return same(b, c, ref, dnames[i]) is None
            if not S.same_tree(tree, t2, leaf_eq2) or sorted(seen2) != list(range(len(leaves))):
                bad('slices', 'unravel(%r) = %r does not place the slices at the leaves' % (v_np.tolist(), t2))
            n += 1
            try:
                flat2, _ = b.m.tree_ravel(t2, none_is_leaf=nil, namespace=ns)
                err = same(b, flat2, v_np, promoted)
                if err: bad('inverse', 'ravel(unravel(v)) has ' + err + ' for v = %r' % (v_np.tolist(),))
            except BaseException as e:
                bad('inverse', 'ravel(unravel(v)) raised %s: %s' % (type(e).__name__, str(e)[:200]))
    # ---- clause rejects
    wrong = []
    base = expected
    wrong.append(('length+1', np.zeros(total + 1, dtype=base.dtype)))
    if total > 0:
        wrong.append(('length-1', np.zeros(total - 1, dtype=base.dtype)))
        wrong.append(('rank 2 (n,1)', np.zeros((total, 1), dtype=base.dtype)))
    wrong.append(('rank 2 (1,n)', np.zeros((1, total), dtype=base.dtype)))
    if total != 1:
        wrong.append(('rank 0', np.zeros((), dtype=base.dtype)))
    if leaves and len(set(dnames)) > 1:
        other = next(d for d in ('float32', 'int32', 'complex64') if d != promoted)
        wrong.append(('dtype %s instead of %s' % (other, promoted), np.zeros(total, dtype=other)))
    for label, arr in wrong:
        n += 1
        try:
            r = unravel(b.mk(arr))
        except ValueError:
            continue
        except BaseException as e:
            bad('rejects', 'unravel(array with wrong %s) raised %s instead of ValueError: %s' % (label, type(e).__name__, str(e)[:200]))
            continue
        bad('rejects', 'unravel(array with wrong %s, shape %r) returned %r instead of raising ValueError' % (label, arr.shape, r))
    return n, out
'''

_WORKER = LIB + r'''
import json, time
cases = json.load(sys.stdin)
t0 = time.time()
res = []
for c in cases:
    try:
        n, out = check_case(c)
    except BaseException as e:
        import traceback
        n, out = 1, ['[unexpected_exception] harness: %s: %s' % (type(e).__name__, traceback.format_exc()[-400:])]
    res.append([n, out])
print('RESULT: ' + json.dumps({'res': res, 'wall': time.time() - t0}), flush=True)
'''

_IMPORT_PROBE = r'''
import sys
name = sys.argv[1]
try:
    if name == 'numpy':
        import numpy, optree.integration.numpy
    elif name == 'jax':
        import jax, jax.numpy, optree.integration.jax
        jax.numpy.zeros(1)
    else:
        import torch, optree.integration.torch
except BaseException as e:
    print('IMPORT-FAILED: %s: %s' % (type(e).__name__, str(e)[:200]))
    sys.exit(3)
print('IMPORT-OK')
'''


def _replay(case: dict) -> str:
    return LIB + '\nCASE = ' + repr(case) + r'''
n, out = check_case(CASE)
for o in out:
    print('VIOLATION: ' + o)
sys.exit(1 if out else 0)
'''


def gen_cases(backend: str, tier: str, seed: int, x64: bool) -> list:
    """Deterministic list of case descriptors, small first."""
    rng = random.Random(f'{seed}/{backend}/{tier}')
    quick = tier == 'quick'
    budget = {('numpy', True): 6000, ('torch', True): 2500, ('jax', True): 700}[(backend, quick)] if quick else \
        {'numpy': 250000, 'torch': 120000, 'jax': 15000}[backend]
    leaf_types = [(s, d) for s in SHAPES for d in DTYPES]
    cases = []

    def options(skel, has_none_tree):
        # none_is_leaf=True only for trees without None (a None leaf is not an array: outside the property)
        nils = [False] if has_none_tree else [False, True]
        # the namespace-only custom node is a node only in that namespace (elsewhere it would be a non-array leaf)
        nss = [S_NS] if skel == 'custom_ns' else ['', S_NS, 'unknown_ns']
        return [(nil, ns) for nil in nils for ns in nss]

    def add(skel, leaves, nil, ns):
        cases.append({'backend': backend, 'x64': x64, 'skeleton': skel, 'leaves': [[list(s), d] for s, d in leaves],
                      'nil': nil, 'ns': ns})

    # --- no leaves
    for skel in ('list', 'tuple', 'dict_rev', 'nested', 'with_none', 'odict_deque', 'custom_ns', 'custom_global', 'ddict'):
        for nil, ns in options(skel, skel == 'with_none'):
            add(skel, [], nil, ns)
    # --- one leaf: every leaf type in the bare skeleton, every skeleton with a few types
    for lt in leaf_types:
        add('bare', [lt], False, '')
    for skel in SKELETONS:
        if skel in ('bare', 'namedtuple'):
            continue
        for lt in rng.sample(leaf_types, 3 if quick else 12):
            for nil, ns in options(skel, skel == 'with_none'):
                add(skel, [lt], nil, ns)
    # --- two leaves: all dtype pairs (shapes sampled), all shape pairs (dtypes sampled)
    two_skels = [s for s in SKELETONS if s != 'bare']
    for d1, d2 in itertools.product(DTYPES, repeat=2):
        s1, s2 = rng.choice(SHAPES), rng.choice(SHAPES)
        skel = rng.choice(two_skels)
        nil, ns = rng.choice(options(skel, skel == 'with_none'))
        add(skel, [(s1, d1), (s2, d2)], nil, ns)
    for s1, s2 in itertools.product(SHAPES, repeat=2):
        d1, d2 = rng.choice(DTYPES), rng.choice(DTYPES)
        skel = rng.choice(two_skels)
        nil, ns = rng.choice(options(skel, skel == 'with_none'))
        add(skel, [(s1, d1), (s2, d2)], nil, ns)
    # --- three and four leaves: seeded sample up to the budget
    many_skels = [s for s in SKELETONS if SKELETONS[s] is None]
    while len(cases) < budget:
        k = rng.choice((2, 3, 3, 4, 4))
        skel = rng.choice(many_skels if k > 2 else two_skels)
        leaves = [rng.choice(leaf_types) for _ in range(k)]
        nil, ns = rng.choice(options(skel, skel == 'with_none'))
        add(skel, leaves, nil, ns)
    # de-duplicate, keep order
    seen, uniq = set(), []
    for c in cases[:budget] if len(cases) > budget else cases:
        key = json.dumps(c, sort_keys=True)
        if key not in seen:
            seen.add(key)
            uniq.append(c)
    return uniq


S_NS = 'ocv_ns'          # = ocv.bounded.scope.NS (not imported here: keeps the parent free of registrations)


def run(tier: str, seed: int) -> BoundedReport:
    t0 = time.time()
    rep = BoundedReport(name='c20_ravel')
    sink = U.FindingSink(per_key=5)
    notes = []
    plan = [('numpy', True), ('torch', True), ('jax', True)]
    if tier != 'quick':
        plan.append(('jax', False))
    probes = dict(U.pmap(lambda b: (b, U.run_child(_IMPORT_PROBE, timeout=300.0, args=(b,))), ['numpy', 'jax', 'torch'], workers=3))
    usable = []
    for b, x64 in plan:
        r = probes[b]
        if r.rc != 0:
            msg = next((l for l in r.out.splitlines() if l.startswith('IMPORT-FAILED')), r.signame())
            note = f'backend {b} not usable here ({msg}); its part of the scope is skipped'
            if note not in notes:
                notes.append(note)
            continue
        usable.append((b, x64))

    def work(bx):
        b, x64 = bx
        cases = gen_cases(b, tier, seed, x64)
        # several children per backend: bounded memory, and the slow backends use more cores
        nchunks = {'numpy': 2, 'torch': 2, 'jax': 3}[b] if tier == 'quick' else {'numpy': 6, 'torch': 6, 'jax': 8}[b]
        chunks = [cases[i::nchunks] for i in range(nchunks)]
        return b, x64, chunks

    jobs = []
    for b, x64, chunks in map(work, usable):
        for ch in chunks:
            jobs.append((b, x64, ch))
    timeout = 300.0 if tier == 'quick' else 1500.0
    results = U.pmap(lambda j: (j, U.run_child(_WORKER, timeout=timeout, stdin=json.dumps(j[2]))), jobs, workers=8)
    evals = 0
    distinct = set()
    per_backend: dict = {}
    samples = []
    for (b, x64, cases), r in results:
        tag = f'{b}{"" if x64 else "(x64 off)"}'
        line = next((l for l in r.out.splitlines() if l.startswith('RESULT: ')), None)
        if line is None:
            what = f'{tag}: worker child ended with {r.signame()} before reporting ({len(cases)} cases): {U.short(r.err[-400:], 400)}'
            sink.add(Finding(key='C20.crash' if r.crashed else ('C20.hang' if r.timed_out else 'C20.unexpected_exception'), what=what,
                             script=_WORKER.replace('json.load(sys.stdin)', repr(cases)), data={'backend': b, 'cases': len(cases)}))
            continue
        info = json.loads(line[8:])
        st = per_backend.setdefault(tag, {'cases': 0, 'evaluations': 0, 'wall': 0.0})
        st['wall'] = round(max(st['wall'], info['wall']), 1)
        for case, (n, out) in zip(cases, info['res']):
            evals += n
            st['cases'] += 1
            st['evaluations'] += n
            if case['leaves']:
                distinct.add(json.dumps(case, sort_keys=True))
            for o in out:
                clause = o[1:o.index(']')]
                key = 'C20.' + {'flat': 'flat_is_not_concatenation', 'roundtrip': 'unravel_ravel_not_identity',
                                'slices': 'unravel_misplaces_slices', 'inverse': 'ravel_unravel_not_identity',
                                'rejects': 'bad_input_not_rejected', 'unexpected_exception': 'unexpected_exception'}[clause]
                sink.add(Finding(key=key, what=U.short(o, 700), script=_replay(case), data={'case': case}))
        if cases and len(samples) < 6:
            c = cases[len(cases) // 2]
            samples.append(f"{tag}: {c['skeleton']} {[d + str(s) for s, d in c['leaves']]} nil={c['nil']} ns={c['ns']!r}")
    rep.evaluations = evals
    rep.distinct_nontrivial = len(distinct)
    rep.rule = ('one evaluation = one clause (flat / roundtrip / slices / inverse / each rejected malformed input) on one '
                '(backend, skeleton, leaf shapes and dtypes, none_is_leaf, namespace); non-trivial = the tree has at least one array leaf')
    rep.scope = ('skeletons ' + ', '.join(SKELETONS) + f'; shapes {SHAPES}; dtypes {DTYPES}; 0..4 leaves: exhaustive for 0 and 1 leaf '
                 '(bare), every dtype pair and every shape pair for 2 leaves, seeded sample for 3-4 leaves and for the skeleton / '
                 'none_is_leaf / namespace of each combination; ' + '; '.join(f'{k}: {v}' for k, v in per_backend.items()))
    rep.exhaustive = False
    rep.samples = samples
    rep.findings = sink.findings()
    notes.append('none_is_leaf=True is combined only with trees without None and namespace "" / unknown only with trees whose custom '
                 'nodes are global: otherwise a non-array object would be a leaf, outside "pytree of arrays"')
    notes.append('the promoted dtype is taken from the backend\'s own public promotion function on the leaf dtypes; jax runs with '
                 'x64 enabled (all seven dtypes)' + (' and additionally with x64 disabled' if tier != 'quick' else '')
                 + '; wrong-dtype inputs for single-dtype trees are not checked (the property only requires rejection for mixed dtypes); '
                 'the is_leaf argument of tree_ravel is not varied; Python scalars as leaves are outside "pytree of arrays"')
    notes.append('finding counts: ' + (sink.summary() or 'none'))
    rep.notes = '; '.join(notes)
    rep.wall_s = round(time.time() - t0, 2)
    return rep
