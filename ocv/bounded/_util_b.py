"""Shared helpers of the bounded monitors C06..C11 (group b).

Contents
  * extra node classes / a second registered namespace (NS2) that scope.py does not have;
  * a small description language for pytrees ``(name, [children])`` with a builder, a renderer to
    Python *source* (used in the replay scripts), an exhaustive generator and one-node mutants;
  * the reference model: ``absify`` turns a Python tree + options into an abstract tree ``N`` exactly
    as README/the property texts describe flattening (sorted dict keys with the documented fallback,
    OrderedDict insertion order, None as node/leaf, is_leaf predicate, registered custom types per
    namespace), and functions over ``N``: leaves, paths, signature, prefix relation, flatten_up_to,
    common suffix (least upper bound), rebuild;  ``abs_from_state`` decodes ``spec.__getstate__()``
    into the same ``N`` (and checks the stored counts);
  * ``Bag``: collects findings (<= 5 per key), counts evaluations / distinct inputs / samples.

Nothing here calls the function under test of any monitor in order to compute an expected value.
"""
from __future__ import annotations

import itertools
import sys
import time
from collections import OrderedDict, defaultdict, deque, namedtuple

import optree

from ocv.bounded import scope as S
from ocv.result import BoundedReport, Finding

L = S.L
NS = S.NS
NS_OTHER = S.NS_OTHER
NS2 = 'ocv_ns_b'                      # second namespace with registrations (only CustomM)

# ------------------------------------------------------------------------------------------------
# extra classes

PointB = namedtuple('PointB', ['x', 'y'])          # same fields as S.Point, different class
TripleB = namedtuple('TripleB', ['a', 'b', 'c'])
SingleB = namedtuple('SingleB', ['only'])
NTB_BY_ARITY = {1: SingleB, 2: PointB, 3: TripleB}
AsyncHooks = type(sys.get_asyncgen_hooks())        # a second struct sequence type with 2 fields


class CustomM:
    """Custom node registered only in namespace NS2 (a leaf elsewhere); no entries, metadata None."""

    def __init__(self, children):
        self.children = list(children)

    def __eq__(self, o):
        return type(o) is CustomM and o.children == self.children

    def __hash__(self):
        return hash('CustomM')

    def __repr__(self):
        return f'CustomM({self.children!r})'


_registered = False


def ensure_registered():
    global _registered
    S.ensure_registered()
    if _registered:
        return
    _registered = True
    optree.register_pytree_node(CustomM, lambda o: (o.children, None), lambda meta, ch: CustomM(ch), namespace=NS2)


# which namespaces each custom class is registered in ('' = global)
REGISTERED_IN = {S.CustomE: '', S.CustomF: '', S.CustomN: NS, CustomM: NS2}

# ------------------------------------------------------------------------------------------------
# description language

ABCD = ['a', 'b', 'c', 'd']
HETERO = [2, 'a', 1, (0,)]                 # sortable only through the documented (type name, key) fallback
UKS = S.UK


def _kv(keys, ch):
    return list(zip(keys, ch))


def _keysF(n):
    return ABCD[:n]


def _keysR(n):
    return ABCD[:n][::-1]


def _keysZ(n):                              # one key differs from the F/R key set
    return ABCD[:n - 1] + ['z']


def _keysU(n):
    return [UKS[2], UKS[0], UKS[1], UKS[3]][:n]


def _keysUR(n):
    return _keysU(n)[::-1]


def _mk_dd(keysf, factory):
    def mk(ch):
        d = defaultdict(factory)
        for k, c in zip(keysf(len(ch)), ch):
            d[k] = c
        return d
    return mk


# name -> (make(children), allowed arities or None, source template)
#   source template: function(list of child sources) -> python expression
def _src_dict(keysf, wrap='{}'):
    def f(cs):
        items = ', '.join(f'({_ksrc(k)}, {c})' for k, c in zip(keysf(len(cs)), cs))
        if wrap == '{}':
            return f'dict([{items}])'
        if wrap == 'od':
            return f'collections.OrderedDict([{items}])'
        return f'collections.defaultdict({wrap}, [{items}])'
    return f


def _ksrc(k):
    if isinstance(k, S.UKey):
        return f'S.UK[{k.n}]'
    return repr(k)


KT = {
    'tuple': (lambda ch: tuple(ch), None, lambda cs: '(' + ''.join(c + ', ' for c in cs) + ')'),
    'list': (lambda ch: list(ch), None, lambda cs: '[' + ', '.join(cs) + ']'),
    'dictF': (lambda ch: dict(_kv(_keysF(len(ch)), ch)), range(1, 5), _src_dict(_keysF)),
    'dictR': (lambda ch: dict(_kv(_keysR(len(ch)), ch)), range(1, 5), _src_dict(_keysR)),
    'dictZ': (lambda ch: dict(_kv(_keysZ(len(ch)), ch)), range(1, 5), _src_dict(_keysZ)),
    'dictH': (lambda ch: dict(_kv(HETERO[:len(ch)], ch)), range(2, 5), _src_dict(lambda n: HETERO[:n])),
    'dictU': (lambda ch: dict(_kv(_keysU(len(ch)), ch)), range(1, 5), _src_dict(_keysU)),
    'dictUR': (lambda ch: dict(_kv(_keysUR(len(ch)), ch)), range(2, 5), _src_dict(_keysUR)),
    'odictF': (lambda ch: OrderedDict(_kv(_keysF(len(ch)), ch)), range(1, 5), _src_dict(_keysF, 'od')),
    'odictR': (lambda ch: OrderedDict(_kv(_keysR(len(ch)), ch)), range(2, 5), _src_dict(_keysR, 'od')),
    'odictZ': (lambda ch: OrderedDict(_kv(_keysZ(len(ch)), ch)), range(1, 5), _src_dict(_keysZ, 'od')),
    'ddictF': (_mk_dd(_keysF, list), range(1, 5), _src_dict(_keysF, 'list')),
    'ddictR': (_mk_dd(_keysR, list), range(2, 5), _src_dict(_keysR, 'list')),
    'ddictI': (_mk_dd(_keysF, int), range(1, 5), _src_dict(_keysF, 'int')),
    'deque': (lambda ch: deque(ch), None, lambda cs: 'collections.deque([' + ', '.join(cs) + '])'),
    'dequeM': (lambda ch: deque(ch, maxlen=len(ch) + 1), None,
               lambda cs: 'collections.deque([' + ', '.join(cs) + f'], maxlen={len(cs) + 1})'),
    'dequeM9': (lambda ch: deque(ch, maxlen=9), None,
                lambda cs: 'collections.deque([' + ', '.join(cs) + '], maxlen=9)'),
    'nt': (lambda ch: S.NT_BY_ARITY[len(ch)](*ch), range(1, 4),
           lambda cs: f'S.NT_BY_ARITY[{len(cs)}](' + ', '.join(cs) + ')'),
    'ntB': (lambda ch: NTB_BY_ARITY[len(ch)](*ch), range(1, 4),
            lambda cs: f'U.NTB_BY_ARITY[{len(cs)}](' + ', '.join(cs) + ')'),
    'structseq': (lambda ch: S.TermSize(tuple(ch)), (2,), lambda cs: 'S.TermSize((' + ', '.join(cs) + '))'),
    'structseqB': (lambda ch: AsyncHooks(tuple(ch)), (2,), lambda cs: 'U.AsyncHooks((' + ', '.join(cs) + '))'),
    'customE': (lambda ch: S.CustomE(ch), None, lambda cs: 'S.CustomE([' + ', '.join(cs) + '])'),
    'customE2': (lambda ch: S.CustomE(ch, 'm2'), None, lambda cs: 'S.CustomE([' + ', '.join(cs) + "], 'm2')"),
    'customF': (lambda ch: S.CustomF(ch), None, lambda cs: 'S.CustomF([' + ', '.join(cs) + '])'),
    'customN': (lambda ch: S.CustomN(ch), None, lambda cs: 'S.CustomN([' + ', '.join(cs) + '])'),
    'customM': (lambda ch: CustomM(ch), None, lambda cs: 'U.CustomM([' + ', '.join(cs) + '])'),
}

# childless atoms: name -> (make(counter), source(counter))
ATOMS = {
    'leaf': None,
    'none': (lambda: None, 'None'),
    'e_tuple': (lambda: (), '()'),
    'e_list': (lambda: [], '[]'),
    'e_dict': (lambda: {}, '{}'),
    'e_odict': (lambda: OrderedDict(), 'collections.OrderedDict()'),
    'e_ddict': (lambda: defaultdict(list), 'collections.defaultdict(list)'),
    'e_deque': (lambda: deque(), 'collections.deque()'),
    'e_nt': (lambda: S.Empty(), 'S.Empty()'),
    'e_customE': (lambda: S.CustomE([]), 'S.CustomE([])'),
}

CORE_KINDS = ['tuple', 'list', 'dictR', 'odictR', 'ddictR', 'deque', 'nt', 'customE']
MID_KINDS = CORE_KINDS + ['dictF', 'odictF', 'dequeM', 'structseq', 'customF', 'customN', 'dictU']
ALL_KINDS = list(KT)
CORE_ATOMS = ['leaf', 'none', 'e_tuple', 'e_dict']
ALL_ATOMS = list(ATOMS)


def kind_ok(name, n):
    ar = KT[name][1]
    return ar is None or n in ar


# "keyed" heads: a description node may also be ((dictkind, keys), [children]) with dictkind in
# dict / odict / ddict / ddictI and explicit keys in insertion order (ad-hoc key sets).
_KEYED_MAKE = {
    'dict': lambda kv: dict(kv),
    'odict': lambda kv: OrderedDict(kv),
    'ddict': lambda kv: defaultdict(list, kv),
    'ddictI': lambda kv: defaultdict(int, kv),
}
_KEYED_SRC = {'dict': 'dict({})', 'odict': 'collections.OrderedDict({})', 'ddict': 'collections.defaultdict(list, {})',
              'ddictI': 'collections.defaultdict(int, {})'}


def keyed(kind, keys, children):
    return ((kind, tuple(keys)), list(children))


def build(d, counter=None):
    """Build the Python tree of a description; leaves are fresh L(i), numbered in construction order."""
    if counter is None:
        counter = itertools.count()
    if len(d) == 1:
        if d[0] == 'leaf':
            return L(next(counter))
        return ATOMS[d[0]][0]()
    if isinstance(d[0], tuple):
        return _KEYED_MAKE[d[0][0]](list(zip(d[0][1], [build(c, counter) for c in d[1]])))
    return KT[d[0]][0]([build(c, counter) for c in d[1]])


def src(d, counter=None):
    """Python source expression that builds the same tree (needs S, U, collections in scope)."""
    if counter is None:
        counter = itertools.count()
    if len(d) == 1:
        if d[0] == 'leaf':
            return f'S.L({next(counter)})'
        return ATOMS[d[0]][1]
    if isinstance(d[0], tuple):
        items = ', '.join(f'({_ksrc(k)}, {src(c, counter)})' for k, c in zip(d[0][1], d[1]))
        return _KEYED_SRC[d[0][0]].format('[' + items + ']')
    return KT[d[0]][2]([src(c, counter) for c in d[1]])


def show(d):
    if len(d) == 1:
        return '*' if d[0] == 'leaf' else d[0]
    if isinstance(d[0], tuple):
        return d[0][0] + '{' + ', '.join(f'{k!r}: {show(c)}' for k, c in zip(d[0][1], d[1])) + '}'
    return f"{d[0]}({', '.join(show(c) for c in d[1])})"


def n_nodes(d):
    return 1 if len(d) == 1 else 1 + sum(n_nodes(c) for c in d[1])


def n_leaf_atoms(d):
    if len(d) == 1:
        return 1 if d[0] == 'leaf' else 0
    return sum(n_leaf_atoms(c) for c in d[1])


def freeze(d):
    return (d[0],) if len(d) == 1 else (d[0], tuple(freeze(c) for c in d[1]))


def descriptions(max_nodes, kinds=CORE_KINDS, atoms=CORE_ATOMS, min_nodes=1):
    """All descriptions with min_nodes..max_nodes nodes over the given kinds/atoms (exhaustive)."""
    def assign(shape):
        if shape == ():
            for a in atoms:
                yield (a,)
            return
        n = len(shape)
        opts = [list(assign(s)) for s in shape]
        for k in kinds:
            if not kind_ok(k, n):
                continue
            for combo in itertools.product(*opts):
                yield (k, list(combo))
    for n in range(min_nodes, max_nodes + 1):
        for s in S.shapes(n):
            yield from assign(s)


def positions(d, prefix=()):
    """All node positions (tuples of child indices) of a description."""
    yield prefix
    if len(d) > 1:
        for i, c in enumerate(d[1]):
            yield from positions(c, prefix + (i,))


def get_at(d, pos):
    for i in pos:
        d = d[1][i]
    return d


def replace_at(d, pos, new):
    if not pos:
        return new
    ch = list(d[1])
    ch[pos[0]] = replace_at(ch[pos[0]], pos[1:], new)
    return (d[0], ch)


def leaf_positions(d):
    return [p for p in positions(d) if get_at(d, p) == ('leaf',)]


def substitute_leaves(d, subs):
    """Replace the i-th 'leaf' atom (construction order) by subs[i] (a description or None = keep)."""
    it = iter(subs)

    def rec(x):
        if len(x) == 1:
            if x[0] == 'leaf':
                s = next(it, None)
                return x if s is None else s
            return x
        return (x[0], [rec(c) for c in x[1]])
    return rec(d)


def mutants(d, kinds=ALL_KINDS, atoms=ALL_ATOMS):
    """All descriptions that differ from d in exactly one node: another kind name of the same arity
    (covers node type, dict kind, key order, one key, maxlen, default factory, namedtuple class,
    custom metadata), another childless atom, one child more / one child less."""
    for pos in positions(d):
        node = get_at(d, pos)
        if len(node) == 1:
            for a in atoms:
                if a != node[0]:
                    yield replace_at(d, pos, (a,))
            yield replace_at(d, pos, ('tuple', [('leaf',)]))
            continue
        n = len(node[1])
        if isinstance(node[0], tuple):
            kk, keys = node[0]
            for k2 in _KEYED_MAKE:
                if k2 != kk:
                    yield replace_at(d, pos, ((k2, keys), node[1]))
            if n >= 2:
                yield replace_at(d, pos, ((kk, keys[::-1]), node[1][::-1]))
                yield replace_at(d, pos, ((kk, keys[:-1]), node[1][:-1]))
            yield replace_at(d, pos, ((kk, keys[:-1] + ('zz',)), node[1]))
            yield replace_at(d, pos, ((kk, keys + ('zz',)), node[1] + [('leaf',)]))
            yield replace_at(d, pos, ('tuple', node[1]))
            continue
        for k in kinds:
            if k != node[0] and kind_ok(k, n):
                yield replace_at(d, pos, (k, node[1]))
        if kind_ok(node[0], n + 1):
            yield replace_at(d, pos, (node[0], node[1] + [('leaf',)]))
        if n >= 2 and kind_ok(node[0], n - 1):
            yield replace_at(d, pos, (node[0], node[1][:-1]))


# ------------------------------------------------------------------------------------------------
# options

def opt_src(o):
    p = o.get('is_leaf')
    return (f"dict(none_is_leaf={o['none_is_leaf']!r}, namespace={o['namespace']!r}, "
            f"is_leaf={'S.' + p.__name__ if p else None})")


def opt_key(o):
    p = o.get('is_leaf')
    return (o['none_is_leaf'], o['namespace'], p.__name__ if p else None)


def options(namespaces=('', NS, NS_OTHER), predicates=(None,), nils=(False, True)):
    return [{'none_is_leaf': nil, 'namespace': ns, 'is_leaf': p}
            for nil in nils for ns in namespaces for p in predicates]


# ------------------------------------------------------------------------------------------------
# reference model

DICT_KINDS = ('dict', 'odict', 'ddict')
KIND_INT = {'custom': 0, 'leaf': 1, 'none': 2, 'tuple': 3, 'list': 4, 'dict': 5, 'namedtuple': 6, 'odict': 7,
            'ddict': 8, 'deque': 9, 'structseq': 10}
INT_KIND = {v: k for k, v in KIND_INT.items()}
STD_TYPE = {'none': type(None), 'tuple': tuple, 'list': list, 'dict': dict, 'odict': OrderedDict,
            'ddict': defaultdict, 'deque': deque}
STRUCTSEQ_TYPES = (S.TermSize, S.StructTime, AsyncHooks)


class N:
    """Abstract tree node of the reference model."""
    __slots__ = ('kind', 'typ', 'meta', 'keys', 'entries', 'children', 'obj')

    def __init__(self, kind, typ=None, meta=None, keys=None, entries=(), children=(), obj=None):
        self.kind = kind            # see KIND_INT
        self.typ = typ              # python type of the node (None for a leaf)
        self.meta = meta            # ddict: default_factory; deque: maxlen; custom: metadata
        self.keys = keys            # dict kinds: keys in traversal order
        self.entries = list(entries)
        self.children = list(children)
        self.obj = obj              # the python object this node was made from (if any)

    def __repr__(self):
        if self.kind == 'leaf':
            return '*'
        if self.kind == 'none':
            return 'None'
        inner = ', '.join(f'{e!r}:{c!r}' for e, c in zip(self.entries, self.children))
        extra = '' if self.meta is None else f'<{self.meta!r}>'
        return f'{self.typ.__name__}{extra}[{inner}]'


def ref_sorted(keys):
    """README: keys sorted by key=lambda k: k if possible, else by (module.qualname, k), else unchanged."""
    keys = list(keys)
    try:
        return sorted(keys)
    except TypeError:
        try:
            return sorted(keys, key=lambda k: (f'{k.__class__.__module__}.{k.__class__.__qualname__}', k))
        except TypeError:
            return keys


def is_registered(typ, ns):
    r = REGISTERED_IN.get(typ)
    return r is not None and (r == '' or r == ns)


def absify(obj, none_is_leaf=False, namespace='', is_leaf=None, insertion=False):
    """Abstract tree of `obj` under the flatten options, per README."""
    def rec(o):
        if is_leaf is not None and is_leaf(o):
            return N('leaf', obj=o)
        if o is None:
            return N('leaf', obj=o) if none_is_leaf else N('none', type(None), obj=o)
        t = type(o)
        if is_registered(t, namespace):
            ch = list(o.children)
            if t is S.CustomE:
                return N('custom', t, o.meta, None, S.CustomE.entries_for(len(ch)), [rec(c) for c in ch], o)
            meta = o.meta if t is S.CustomF else None
            return N('custom', t, meta, None, range(len(ch)), [rec(c) for c in ch], o)
        if t is tuple:
            return N('tuple', t, None, None, range(len(o)), [rec(c) for c in o], o)
        if t is list:
            return N('list', t, None, None, range(len(o)), [rec(c) for c in o], o)
        if t is dict or t is defaultdict:
            keys = list(o) if insertion else ref_sorted(o)
            return N('dict' if t is dict else 'ddict', t, o.default_factory if t is defaultdict else None,
                     keys, keys, [rec(o[k]) for k in keys], o)
        if t is OrderedDict:
            keys = list(o)
            return N('odict', t, None, keys, keys, [rec(o[k]) for k in keys], o)
        if t is deque:
            return N('deque', t, o.maxlen, None, range(len(o)), [rec(c) for c in o], o)
        if t in STRUCTSEQ_TYPES:
            return N('structseq', t, None, None, range(len(o)), [rec(c) for c in o], o)
        if isinstance(o, tuple) and hasattr(t, '_fields'):
            return N('namedtuple', t, None, None, range(len(o)), [rec(c) for c in o], o)
        return N('leaf', obj=o)
    return rec(obj)


def contains_custom(n):
    return n.kind == 'custom' or any(contains_custom(c) for c in n.children)


def a_leaves(n):
    if n.kind == 'leaf':
        return [n.obj]
    out = []
    for c in n.children:
        out.extend(a_leaves(c))
    return out


def a_leaf_nodes(n, path=()):
    """[(path, leaf node)] in leaf order."""
    if n.kind == 'leaf':
        return [(path, n)]
    out = []
    for e, c in zip(n.entries, n.children):
        out.extend(a_leaf_nodes(c, path + (e,)))
    return out


def a_paths(n):
    return [p for p, _ in a_leaf_nodes(n)]


def a_num_nodes(n):
    return 1 + sum(a_num_nodes(c) for c in n.children)


def a_num_leaves(n):
    return 1 if n.kind == 'leaf' else sum(a_num_leaves(c) for c in n.children)


def a_navigate(n, path):
    """Abstract node reached from n by the path entries (None if the path leaves the tree)."""
    for e in path:
        hit = None
        for e2, c in zip(n.entries, n.children):
            if e2 is e or e2 == e:
                hit = c
                break
        if hit is None:
            return None
        n = hit
    return n


def _meta_sig(m):
    try:
        hash(m)
        return m
    except TypeError:
        return repr(m)


def sig(n, loose=False):
    """Canonical hashable signature: equal signatures <=> same node type, arity, keys/metadata at every
    position and leaves at the same positions.  loose=True forgets the key *order* of dict/defaultdict."""
    if n.kind == 'leaf':
        return '*'
    if n.kind == 'none':
        return 'None'
    ch = tuple(sig(c, loose) for c in n.children)
    if n.kind in DICT_KINDS:
        if loose and n.kind != 'odict':
            return (n.kind, _meta_sig(n.meta), frozenset(zip(n.keys, ch)))
        return (n.kind, _meta_sig(n.meta), tuple(n.keys), ch)
    return (n.kind, n.typ, _meta_sig(n.meta), ch)


def a_same(a, b, entries=True):
    """Exact agreement of two abstract trees (types, metadata, key order, optionally path entries)."""
    if a.kind != b.kind or len(a.children) != len(b.children):
        return False
    if a.kind in ('leaf', 'none'):
        return True
    if a.typ is not b.typ or a.meta != b.meta:
        return False
    if a.kind in DICT_KINDS and list(a.keys) != list(b.keys):
        return False
    if entries and list(a.entries) != list(b.entries):
        return False
    return all(a_same(x, y, entries) for x, y in zip(a.children, b.children))


def node_match(a, b):
    """Does the non-leaf node a accept node b as 'the same node' in the prefix relation (C07 text)?
    Returns the list of b's children aligned with a's children, or None."""
    if a.kind == 'none':
        return [] if b.kind == 'none' else None
    if a.kind in DICT_KINDS:
        if b.kind not in DICT_KINDS or len(a.keys) != len(b.keys) or set(a.keys) != set(b.keys):
            return None
        bmap = dict(zip(b.keys, b.children))
        return [bmap[k] for k in a.keys]
    if a.kind != b.kind or len(a.children) != len(b.children):
        return None
    if a.kind in ('tuple', 'list', 'deque'):        # deque: maxlen ignored
        return list(b.children)
    if a.kind in ('namedtuple', 'structseq'):
        return list(b.children) if a.typ is b.typ else None
    if a.kind == 'custom':
        return list(b.children) if (a.typ is b.typ and a.meta == b.meta) else None
    raise AssertionError(a.kind)


def ref_prefix(a, b):
    """(is_prefix, strict): a is a prefix of b; strict = some leaf of a lies over a non-leaf node of b."""
    if a.kind == 'leaf':
        return True, b.kind != 'leaf'
    if b.kind == 'leaf':
        return False, False
    al = node_match(a, b)
    if al is None:
        return False, False
    strict = False
    for x, y in zip(a.children, al):
        ok, s = ref_prefix(x, y)
        if not ok:
            return False, False
        strict = strict or s
    return True, strict


def ref_up_to(a, b):
    """Nodes of b found at the leaves of a (a's leaf order), or None when a is no prefix of b."""
    if a.kind == 'leaf':
        return [b]
    if b.kind == 'leaf':
        return None
    al = node_match(a, b)
    if al is None:
        return None
    out = []
    for x, y in zip(a.children, al):
        r = ref_up_to(x, y)
        if r is None:
            return None
        out.extend(r)
    return out


class Conflict(Exception):
    pass


def ref_common(a, b):
    """Least structure both are prefixes of, with a's node types / key order / entries where a has a node
    and b's subtree where a has a leaf; Conflict if there is none."""
    if a.kind == 'leaf':
        return b
    if b.kind == 'leaf':
        return a
    al = node_match(a, b)
    if al is None:
        raise Conflict()
    return N(a.kind, a.typ, a.meta, a.keys, a.entries, [ref_common(x, y) for x, y in zip(a.children, al)], a.obj)


def rebuild(n, children):
    """Python object of node n's type/metadata with the given children (reference unflatten, one level)."""
    k = n.kind
    if k == 'none':
        return None
    if k == 'tuple':
        return tuple(children)
    if k == 'list':
        return list(children)
    if k in DICT_KINDS:
        m = dict(zip(n.keys, children))
        order = list(n.obj) if n.obj is not None else list(n.keys)     # original insertion order
        if k == 'dict':
            return {kk: m[kk] for kk in order}
        if k == 'odict':
            return OrderedDict((kk, m[kk]) for kk in order)
        d = defaultdict(n.meta)
        for kk in order:
            d[kk] = m[kk]
        return d
    if k == 'deque':
        return deque(children, maxlen=n.meta)
    if k == 'namedtuple':
        return n.typ(*children)
    if k == 'structseq':
        return n.typ(tuple(children))
    if k == 'custom':
        if n.typ is S.CustomE or n.typ is S.CustomF:
            return n.typ(children, n.meta)
        return n.typ(children)
    raise AssertionError(k)


def a_unflatten(n, leaves):
    """Reference unflatten: python tree of structure n with the given leaves (iterator consumed in order)."""
    it = iter(leaves)

    def rec(x):
        if x.kind == 'leaf':
            return next(it)
        return rebuild(x, [rec(c) for c in x.children])
    return rec(n)


class Malformed(Exception):
    pass


def abs_from_state(spec):
    """Decode spec.__getstate__() into (N, none_is_leaf, namespace); raises Malformed when the stored
    arities / counts are inconsistent."""
    nodes, nil, ns = spec.__getstate__()
    stack = []
    for st in nodes:
        kind_i, arity, data, ent, ctype, nl, nn = st[:7]
        kind = INT_KIND.get(kind_i)
        if kind is None or arity < 0 or len(stack) < arity:
            raise Malformed(f'bad node {st!r}')
        ch = stack[len(stack) - arity:]
        del stack[len(stack) - arity:]
        if kind == 'leaf':
            n = N('leaf')
        elif kind == 'none':
            n = N('none', type(None))
        elif kind in ('tuple', 'list'):
            n = N(kind, STD_TYPE[kind], None, None, range(arity), ch)
        elif kind in ('dict', 'odict'):
            n = N(kind, STD_TYPE[kind], None, list(data), list(data), ch)
        elif kind == 'ddict':
            n = N(kind, defaultdict, data[0], list(data[1]), list(data[1]), ch)
        elif kind == 'deque':
            n = N(kind, deque, data, None, range(arity), ch)
        elif kind in ('namedtuple', 'structseq'):
            n = N(kind, data, None, None, range(arity), ch)
        else:
            n = N('custom', ctype, data, None, ent if ent is not None else range(arity), ch)
        if kind in DICT_KINDS and len(n.keys) != arity:
            raise Malformed(f'key count {st!r}')
        if len(n.entries) != arity and kind not in ('leaf', 'none'):
            raise Malformed(f'entry count {st!r}')
        if nl != a_num_leaves(n) or nn != a_num_nodes(n):
            raise Malformed(f'stored counts ({nl},{nn}) != recomputed ({a_num_leaves(n)},{a_num_nodes(n)}) in {st!r}')
        stack.append(n)
    if len(stack) != 1:
        raise Malformed('not a singleton')
    return stack[0], nil, ns


def state_snapshot(spec):
    """Deep-enough copy of the observable state of a treespec (lists copied) for mutation checks."""
    nodes, nil, ns = spec.__getstate__()

    def snap(x):
        if isinstance(x, list):
            return list(x)
        if isinstance(x, tuple):
            return tuple(snap(y) for y in x)
        return x
    return (tuple(tuple(snap(f) for f in st) for st in nodes), nil, ns, repr(spec))


def ns_compatible(x, y):
    return x == '' or y == '' or x == y


# ------------------------------------------------------------------------------------------------
# exact structural identity of python trees (types, key order, metadata, leaf identity)

def same_tree(a, b, leaf_eq=lambda x, y: x is y):
    if type(a) is not type(b):
        return False
    if a is None:
        return True
    if isinstance(a, dict):
        if list(a.keys()) != list(b.keys()):
            return False
        if isinstance(a, defaultdict) and a.default_factory is not b.default_factory:
            return False
        return all(same_tree(a[k], b[k], leaf_eq) for k in a)
    if isinstance(a, deque):
        return a.maxlen == b.maxlen and len(a) == len(b) and all(same_tree(x, y, leaf_eq) for x, y in zip(a, b))
    if isinstance(a, (tuple, list)):          # incl. namedtuple / struct sequence instances (exact type equal)
        return len(a) == len(b) and all(same_tree(x, y, leaf_eq) for x, y in zip(a, b))
    if type(a) in REGISTERED_IN:
        if getattr(a, 'meta', None) != getattr(b, 'meta', None):
            return False
        return len(a.children) == len(b.children) and \
            all(same_tree(x, y, leaf_eq) for x, y in zip(a.children, b.children))
    return leaf_eq(a, b)


# ------------------------------------------------------------------------------------------------
# findings / report bookkeeping

SCRIPT_HEADER = '''\
import sys, collections, pickle, copy
import optree
from ocv.bounded import scope as S
from ocv.bounded import _util_b as U
U.ensure_registered()
'''


def script(body):
    return SCRIPT_HEADER + body.rstrip() + '\n'


class Bag:
    """Findings (<= cap per key, first = smallest since scopes are enumerated small-to-large),
    evaluation counter, distinct non-trivial inputs, samples."""

    def __init__(self, name, cap=5):
        self.name = name
        self.cap = cap
        self._kept = {}
        self._seq = 0
        self.per_key = {}
        self.evaluations = 0
        self.distinct = set()
        self.samples = []
        self.t0 = time.time()
        self.notes = []

    def ev(self, n=1):
        self.evaluations += n

    def seen(self, canon):
        self.distinct.add(canon)

    def sample(self, s, limit=6):
        if len(self.samples) < limit:
            self.samples.append(s)

    @property
    def findings(self):
        return self._materialise()

    def add(self, key, what, body, data=None):
        """body: script body (string) or a zero-argument callable producing it (materialised only for the
        findings that are kept).  Per key the `cap` findings with the shortest description are kept, so the
        report shows the smallest failing inputs regardless of the enumeration order."""
        n = self.per_key.get(key, 0)
        self.per_key[key] = n + 1
        kept = self._kept.setdefault(key, [])
        rank = (len(what), self._seq)
        self._seq += 1
        if len(kept) >= self.cap:
            worst = max(range(len(kept)), key=lambda i: kept[i][:2])
            if rank >= kept[worst][:2]:
                return
            del kept[worst]
        if callable(body):
            body = body()           # materialised now: the callable may close over variables that change later
        kept.append((rank[0], rank[1], what, body, data or {}))

    def _materialise(self):
        out = []
        for key in sorted(self._kept, key=lambda k: min(i[1] for i in self._kept[k])):
            for size, seq, what, body, data in sorted(self._kept[key], key=lambda i: i[:2]):
                out.append(Finding(key=key, what=what[:2000], script=script(body), data=data))
        return out

    def elapsed(self):
        return time.time() - self.t0

    def report(self, rule, scope, exhaustive, notes=''):
        extra = '; '.join(f'{k}: {v} violations seen' for k, v in sorted(self.per_key.items()) if v > self.cap)
        allnotes = ' | '.join(x for x in [notes, *self.notes, extra] if x)
        return BoundedReport(name=self.name, evaluations=self.evaluations, distinct_nontrivial=len(self.distinct),
                             rule=rule, scope=scope, exhaustive=exhaustive, samples=self.samples,
                             findings=self._materialise(), notes=allnotes)


def guard(fn, *a, **k):
    """Call fn; return ('ok', value) or ('exc', exception)."""
    try:
        return 'ok', fn(*a, **k)
    except Exception as e:   # noqa: BLE001 - classified by the caller, never ignored
        return 'exc', e


def exc_name(e):
    return f'{type(e).__name__}: {str(e)[:160]}'


def thin(items, limit, rng):
    """Deterministic thinning: keep everything when small, else a seeded sample preserving order."""
    items = list(items)
    if limit is None or len(items) <= limit:
        return items
    idx = sorted(rng.sample(range(len(items)), limit))
    return [items[i] for i in idx]


# ------------------------------------------------------------------------------------------------
# treespec constructor expressions (source text; evaluated by the monitors and pasted into scripts)

TYPE_SRC = {
    S.Point: 'S.Point', S.Triple: 'S.Triple', S.Single: 'S.Single', S.Empty: 'S.Empty',
    PointB: 'U.PointB', TripleB: 'U.TripleB', SingleB: 'U.SingleB',
    S.TermSize: 'S.TermSize', S.StructTime: 'S.StructTime', AsyncHooks: 'U.AsyncHooks',
    S.CustomE: 'S.CustomE', S.CustomF: 'S.CustomF', S.CustomN: 'S.CustomN', CustomM: 'U.CustomM',
    list: 'list', int: 'int', type(None): 'None',
}


def collection_src(n, child_srcs):
    """Source of a python collection of node n's type (original insertion order for dict kinds) whose
    children are the given source expressions (aligned with n.children)."""
    k = n.kind
    cs = list(child_srcs)
    if k == 'none':
        return 'None'
    if k == 'tuple':
        return '(' + ''.join(c + ', ' for c in cs) + ')'
    if k == 'list':
        return '[' + ', '.join(cs) + ']'
    if k in DICT_KINDS:
        m = dict(zip(n.keys, cs))
        order = list(n.obj) if n.obj is not None else list(n.keys)
        items = '[' + ', '.join(f'({_ksrc(kk)}, {m[kk]})' for kk in order) + ']'
        if k == 'dict':
            return f'dict({items})'
        if k == 'odict':
            return f'collections.OrderedDict({items})'
        return f'collections.defaultdict({TYPE_SRC[n.meta] if n.meta is not None else None}, {items})'
    if k == 'deque':
        return 'collections.deque([' + ', '.join(cs) + f'], maxlen={n.meta!r})'
    if k == 'namedtuple':
        return f'{TYPE_SRC[n.typ]}(' + ', '.join(cs) + ')'
    if k == 'structseq':
        return f'{TYPE_SRC[n.typ]}((' + ''.join(c + ', ' for c in cs) + '))'
    if k == 'custom':
        if n.typ in (S.CustomE, S.CustomF):
            return f'{TYPE_SRC[n.typ]}([' + ', '.join(cs) + f'], {n.meta!r})'
        return f'{TYPE_SRC[n.typ]}([' + ', '.join(cs) + '])'
    raise AssertionError(k)


def ctor_src(n, nil, ns, generic=False):
    """Source expression building the treespec of abstract tree n bottom-up with the treespec_* constructors
    (generic=True: treespec_from_collection at every node)."""
    tail = f'none_is_leaf={nil!r}, namespace={ns!r}'
    if n.kind == 'leaf':
        return f'optree.treespec_leaf({tail})'
    if n.kind == 'none':
        return f'optree.treespec_none({tail})'
    cs = [ctor_src(c, nil, ns, generic) for c in n.children]
    k = n.kind
    if generic or k == 'custom':
        return f'optree.treespec_from_collection({collection_src(n, cs)}, {tail})'
    if k in ('tuple', 'list'):
        return f'optree.treespec_{k}([' + ', '.join(cs) + f'], {tail})'
    if k in DICT_KINDS:
        m = dict(zip(n.keys, cs))
        order = list(n.obj) if n.obj is not None else list(n.keys)
        items = '[' + ', '.join(f'({_ksrc(kk)}, {m[kk]})' for kk in order) + ']'
        if k == 'dict':
            return f'optree.treespec_dict({items}, {tail})'
        if k == 'odict':
            return f'optree.treespec_ordereddict({items}, {tail})'
        return f'optree.treespec_defaultdict({TYPE_SRC[n.meta] if n.meta is not None else None}, {items}, {tail})'
    if k == 'deque':
        return 'optree.treespec_deque([' + ', '.join(cs) + f'], maxlen={n.meta!r}, {tail})'
    if k == 'namedtuple':
        return f'optree.treespec_namedtuple({collection_src(n, cs)}, {tail})'
    if k == 'structseq':
        return f'optree.treespec_structseq({collection_src(n, cs)}, {tail})'
    raise AssertionError(k)


def ev(source, **extra):
    """Evaluate a source expression produced by src()/ctor_src() in the namespace the scripts use."""
    import collections
    import copy
    import pickle
    env = {'optree': optree, 'collections': collections, 'S': S, 'U': sys.modules[__name__], 'pickle': pickle,
           'copy': copy}
    env.update(extra)
    return eval(source, env)   # noqa: S307 - our own generated text


def lit(x):
    """Source text of a value used as an expected value in replay scripts."""
    if isinstance(x, S.UKey):
        return f'S.UK[{x.n}]'
    if isinstance(x, type):
        if x in TYPE_SRC:
            return TYPE_SRC[x] if x is not type(None) else 'type(None)'
        return {tuple: 'tuple', dict: 'dict', OrderedDict: 'collections.OrderedDict', defaultdict: 'collections.defaultdict',
                deque: 'collections.deque'}.get(x, repr(x))
    if isinstance(x, list):
        return '[' + ', '.join(lit(y) for y in x) + ']'
    if isinstance(x, tuple) and type(x) is tuple:
        return '(' + ''.join(lit(y) + ', ' for y in x) + ')'
    if isinstance(x, range):
        return lit(list(x))
    return repr(x)


def ref_repr(n, nil, ns):
    """repr(treespec) in the documented notation, or None when the tree has a node kind whose notation the
    documentation does not show (struct sequences)."""
    def r(x):
        if x.kind == 'leaf':
            return '*'
        if x.kind == 'none':
            return 'None'
        ch = [r(c) for c in x.children]
        if any(c is None for c in ch):
            return None
        k = x.kind
        if k == 'tuple':
            return '(' + ', '.join(ch) + (',' if len(ch) == 1 else '') + ')'
        if k == 'list':
            return '[' + ', '.join(ch) + ']'
        if k in DICT_KINDS:
            body = '{' + ', '.join(f'{kk!r}: {c}' for kk, c in zip(x.keys, ch)) + '}'
            if k == 'dict':
                return body
            if k == 'odict':
                return 'OrderedDict(' + (body if ch else '') + ')'
            return f'defaultdict({x.meta!r}, {body})'
        if k == 'deque':
            return 'deque([' + ', '.join(ch) + ']' + (f', maxlen={x.meta}' if x.meta is not None else '') + ')'
        if k == 'namedtuple':
            return f'{x.typ.__name__}(' + ', '.join(f'{f}={c}' for f, c in zip(x.typ._fields, ch)) + ')'
        if k == 'custom':
            return f'CustomTreeNode({x.typ.__name__}[{x.meta!r}], [' + ', '.join(ch) + '])'
        return None
    body = r(n)
    if body is None:
        return None
    return 'PyTreeSpec(' + body + (', NoneIsLeaf' if nil else '') + (f', namespace={ns!r}' if ns else '') + ')'


LEAF = ('leaf',)
T2 = ('tuple', [LEAF, LEAF])
T3 = ('tuple', [LEAF, LEAF, LEAF])

# ------------------------------------------------------------------------------------------------
# pair generators shared by C07 / C09

SUBS = [T2, ('list', [LEAF]), ('dictR', [LEAF, T2]), ('none',), ('e_tuple',), ('customE', [LEAF]), ('odictR', [LEAF, LEAF]),
        ('dequeM', [LEAF]), ('nt', [LEAF, LEAF])]


def suffixes(d, subs, rng, per_leaf=None):
    """True suffixes of d: one leaf replaced by each sub, all leaves replaced by one sub, mixed."""
    n = n_leaf_atoms(d)
    yield d
    for i in range(n):
        for s in (subs if per_leaf is None else rng.sample(subs, per_leaf)):
            yield substitute_leaves(d, [None] * i + [s])
    if n >= 2:
        for s in subs[:4]:
            yield substitute_leaves(d, [s] * n)
        yield substitute_leaves(d, [subs[(i * 2) % len(subs)] for i in range(n)])


def equivalents(d):
    """Same tree up to the equivalence of C07: other dict kind / key order / deque maxlen at every such node."""
    swap = {'dictR': 'odictF', 'odictR': 'ddictF', 'ddictR': 'dictF', 'dictF': 'odictR', 'odictF': 'dictR', 'ddictF': 'odictR'}

    def rec(x):
        if len(x) == 1:
            return x
        ch = [rec(c) for c in x[1]]
        if x[0] in swap:
            return (swap[x[0]], ch[::-1])
        if x[0] == 'deque':
            return ('dequeM', ch)
        if x[0] == 'dequeM':
            return ('dequeM9', ch)
        return (x[0], ch)
    return rec(d)


def nested_dict_pairs(nkeys, rng, limit):
    """Two-level dict trees: every outer kind / key order x inner kind / key order x unequal subtree sizes."""
    inner_p = [LEAF,
               keyed('odict', 'pq', [LEAF, LEAF]), keyed('odict', 'qp', [LEAF, LEAF]), keyed('dict', 'pq', [LEAF, LEAF])]
    inner_f = [LEAF, T2,
               keyed('odict', 'pq', [LEAF, T2]), keyed('odict', 'qp', [T2, LEAF]), keyed('odict', 'qp', [LEAF, T3]),
               keyed('dict', 'qp', [T2, LEAF]), keyed('ddict', 'qp', [LEAF, LEAF])]
    keys = 'xyz'[:nkeys]
    ps, fs = [], []
    for kind in ('odict', 'dict'):
        for perm in itertools.permutations(keys):
            for vals in itertools.product(inner_p, repeat=nkeys):
                if kind == 'dict' and perm != tuple(keys):
                    continue
                ps.append(keyed(kind, perm, list(vals)))
    for kind in ('odict', 'ddict'):
        for perm in itertools.permutations(keys):
            for vals in itertools.product(inner_f, repeat=nkeys):
                if kind == 'ddict' and perm != tuple(keys)[::-1]:
                    continue
                fs.append(keyed(kind, perm, list(vals)))
    pairs = [(p, f) for p in ps for f in fs]
    return thin(pairs, limit, rng)


def random_nested(rng, depth):
    """Random nested-dict prefix tree and a related full tree: keys permuted at every level, dict kinds changed,
    leaves replaced by subtrees of different sizes; with probability 1/4 one extra mutation (near-miss)."""
    kinds = ['odict', 'dict', 'ddict']

    def gen(dep):
        if dep == 0 or rng.random() < 0.3:
            return LEAF
        n = rng.choice([2, 2, 3])
        keys = rng.sample(['k', 'l', 'm', 'n'], n)
        return keyed(rng.choice(kinds[:2]), keys, [gen(dep - 1) for _ in range(n)])

    def derive(x):
        if len(x) == 1:
            return rng.choice([LEAF, LEAF, T2, T3, ('list', [LEAF]), keyed('odict', 'ba', [LEAF, T2])])
        kind, keys = x[0]
        idx = list(range(len(keys)))
        rng.shuffle(idx)
        return keyed(rng.choice(kinds), [keys[i] for i in idx], [derive(x[1][i]) for i in idx])
    p = gen(depth)
    if len(p) == 1:
        p = keyed('odict', 'lk', [LEAF, gen(depth - 1)])
    f = derive(p)
    if rng.random() < 0.25:
        ms = list(mutants(f))
        f = rng.choice(ms)
    return p, f


HET = [1, 'a', 2j, None, (0,), S.UK[0], S.UK[1], 2.5, b'x']


def hetero_pairs(maxsize, rng, limit):
    subsets = [c for r in range(1, maxsize + 1) for c in itertools.combinations(HET, r)]
    out = []
    for a in subsets:
        for b in subsets:
            for pk, fk in (('dict', 'dict'), ('odict', 'ddict')):
                vals = [LEAF if i % 2 == 0 else T2 for i in range(len(b))]
                out.append((keyed(pk, a, [LEAF] * len(a)), keyed(fk, b[::-1], vals[::-1])))
    return thin(out, limit, rng)


def equiv_sig(n):
    """Signature up to the C07 equivalence (dict kind, key order, default factory, deque maxlen)."""
    if n.kind in ('leaf', 'none'):
        return n.kind
    ch = [equiv_sig(c) for c in n.children]
    if n.kind in DICT_KINDS:
        return ('D', frozenset(zip(n.keys, ch)))
    if n.kind == 'deque':
        return ('deque', tuple(ch))
    return (n.kind, n.typ, _meta_sig(n.meta), tuple(ch))
