"""C16 bounded monitor, part 2: hand-written tuple subclasses that pass the namedtuple heuristic but declare more / fewer
`_fields` than they have elements (by 1, 2, 40, 6000), as tree nodes: every operation on their treespecs (repr, str, paths,
accessors, entries, unflatten, pickle round trip, hash, ==) ends with a Python exception or a result - never with a crash or
with text / values read from beyond the children.  Each scenario runs in a child interpreter; death by signal is the failure."""
import os
import subprocess
import sys

from ocv.result import BoundedReport, Finding

CHILD = r'''
import sys, pickle
import optree
extra, nelem, op = int(sys.argv[1]), int(sys.argv[2]), sys.argv[3]
n_fields = max(nelem + extra, 0)
class Fake(tuple):
    _fields = tuple('f%d' % i for i in range(n_fields))
    @classmethod
    def _make(cls, it): return cls(it)
    def _asdict(self): return {}
inst = Fake(tuple(range(nelem)))
ts = optree.tree_structure([inst, 1])
try:
    if op == 'repr':
        r = repr(ts)
        # the rendered children must be exactly the real ones: one '*' per element
        inner = r[r.index('Fake('):] if 'Fake(' in r else r
        stars = inner.count('*')
        print('RESULT', 'ok' if stars <= nelem + 1 else 'BOGUS:' + r[:200])
    elif op == 'str':
        print('RESULT', 'ok', len(str(ts)))
    elif op == 'paths':
        print('RESULT', 'ok', len(ts.paths()), len(ts.accessors()), len(ts.entries()))
    elif op == 'unflatten':
        print('RESULT', 'ok', type(ts.unflatten(range(ts.num_leaves))).__name__)
    elif op == 'pickle':
        print('RESULT', 'ok', pickle.loads(pickle.dumps(ts)) == ts)
    elif op == 'hash':
        print('RESULT', 'ok', hash(ts) == hash(optree.tree_structure([inst, 1])), ts == optree.tree_structure([inst, 1]))
except BaseException as e:
    print('RESULT', 'exception', type(e).__name__)
'''


def run(tier, seed):
    import optree
    build = os.path.dirname(os.path.dirname(optree.__file__))
    rep = BoundedReport(name='c16_extra', exhaustive=True,
                        scope='fake namedtuple classes with |_fields| - |elements| in {-2,-1,0,1,2,40,6000} x elements in {0,2,3} x 6 operations',
                        rule='one evaluation = one operation in a child interpreter; a crash or a rendering with more children than exist fails')
    found = []
    extras = [-2, -1, 0, 1, 2, 40, 6000] if tier != 'quick' else [-1, 0, 1, 40, 6000]
    for extra in extras:
        for nelem in (0, 2, 3):
            for op in ('repr', 'str', 'paths', 'unflatten', 'pickle', 'hash'):
                rep.evaluations += 1
                rep.distinct_nontrivial += 1 if extra else 0
                p = subprocess.run([sys.executable, '-c', CHILD, str(extra), str(nelem), op], capture_output=True, text=True,
                                   env=dict(os.environ, PYTHONPATH=build), cwd='/', timeout=120)
                line = next((l for l in p.stdout.splitlines() if l.startswith('RESULT')), '')
                what = None
                if p.returncode < 0:
                    what = f'{op} on the treespec of a fake namedtuple with {nelem} elements and {max(nelem + extra, 0)} field names: the interpreter died with signal {-p.returncode}'
                elif 'BOGUS' in line:
                    what = f'{op} with {nelem} elements and {max(nelem + extra, 0)} field names rendered children that do not exist: {line[13:]}'
                elif p.returncode != 0 or not line:
                    what = f'{op} with {nelem} elements / {max(nelem + extra, 0)} fields: child exited {p.returncode}: {p.stderr[-300:]}'
                if what and len(found) < 6:
                    script = ('import subprocess, sys, os\nCHILD = ' + repr(CHILD) + f'\np = subprocess.run([sys.executable, "-c", CHILD, "{extra}", "{nelem}", "{op}"], '
                              'capture_output=True, text=True, cwd="/")\nprint(p.stdout, p.stderr[-500:])\n'
                              'bad = p.returncode != 0 or "BOGUS" in p.stdout\nprint("VIOLATION" if bad else "ok")\nsys.exit(1 if bad else 0)\n')
                    found.append(Finding(key='C16.fake_namedtuple_fields', what=what, script=script))
    rep.samples = ['(extra=1, nelem=2, op=repr)', '(extra=6000, nelem=2, op=repr)']
    rep.findings = found
    return rep
