"""C11 bounded monitor, part 3: pickling of treespecs that were NOT obtained by flattening a tree - treespec constructors
(treespec_dict / _defaultdict / _ordereddict / _from_collection / _tuple ...), compose, child, broadcast_to_common_suffix,
transform - under both dict-order modes (global and per-namespace), both none_is_leaf settings, with custom nodes that
return explicit path entries.  Clause: pickle.loads(pickle.dumps(s)) is equal to s with equal hash, repr, paths, accessors,
entries, children, and unflattens leaves to the same tree including the original dict key order.
Exhaustive over the listed grid."""
from ocv.bounded._extra import run_core

CORE = r'''
import collections, copy, pickle
import optree

NS = 'c11x'
class Rec:
    def __init__(self, **kw): self.kw = dict(kw)
    def __eq__(self, o): return type(o) is Rec and o.kw == self.kw and list(o.kw) == list(self.kw)
    def __repr__(self): return f'Rec({self.kw!r})'
import sys, types
_mod = sys.modules.setdefault('c11x_mod', types.ModuleType('c11x_mod'))       # pickle stores classes by reference
if hasattr(_mod, 'Rec'):
    Rec = _mod.Rec
else:
    Rec.__module__, Rec.__qualname__ = 'c11x_mod', 'Rec'
    _mod.Rec = Rec
try:
    optree.register_pytree_node(Rec, lambda r: (tuple(r.kw.values()), tuple(r.kw), tuple('e_' + k for k in r.kw)),
                                lambda keys, ch: Rec(**dict(zip(keys, ch))), namespace=NS)
except ValueError:
    pass

def mode_ctx(mode):
    import contextlib
    if mode == 'sorted':
        return contextlib.nullcontext()
    glob = next(v for k, v in optree.registry.__dict__.items() if k.endswith('GLOBAL_NAMESPACE'))
    return optree.dict_insertion_ordered(True, namespace=NS if mode == 'ins_ns' else glob)

def routes(kw):
    L = optree.treespec_leaf(**{k: v for k, v in kw.items()})
    T = optree.treespec_tuple([L, L], **kw)
    d = {'b': L, 'a': T, 'c': L}
    yield 'treespec_dict', lambda: optree.treespec_dict(d, **kw)
    yield 'treespec_dict(kwargs)', lambda: optree.treespec_dict(z=L, y=T, **kw)
    yield 'treespec_defaultdict', lambda: optree.treespec_defaultdict(list, d, **kw)
    yield 'treespec_ordereddict', lambda: optree.treespec_ordereddict(collections.OrderedDict([('b', L), ('a', T)]), **kw)
    yield 'treespec_from_collection(dict)', lambda: optree.treespec_from_collection({'q': L, 'p': [T, L]}, **kw)
    yield 'treespec_from_collection(nested)', lambda: optree.treespec_from_collection([{'y': L, 'x': L}, T], **kw)
    yield 'treespec_from_collection(custom)', lambda: optree.treespec_from_collection(Rec(u=L, t=T), **kw)
    yield 'treespec_list(of dict specs)', lambda: optree.treespec_list([optree.treespec_dict(d, **kw), L], **kw)
    yield 'flatten', lambda: optree.tree_structure({'b': 1, 'a': (2, 3), 'r': Rec(u=4, t=5)}, **kw)
    yield 'compose', lambda: optree.tree_structure({'b': 1, 'a': 2}, **kw).compose(optree.treespec_dict({'n': L, 'm': L}, **kw))
    yield 'compose(namespace-less outer, namespaced inner)', lambda: optree.tree_structure([0, {'k': 0}], none_is_leaf=kw['none_is_leaf']).compose(
        optree.tree_structure(Rec(u=1, t=2), none_is_leaf=kw['none_is_leaf'], namespace=NS))
    yield 'broadcast(namespace-less, namespaced)', lambda: optree.tree_structure([0, 0], none_is_leaf=kw['none_is_leaf']).broadcast_to_common_suffix(
        optree.tree_structure([Rec(u=1), 2], none_is_leaf=kw['none_is_leaf'], namespace=NS))
    yield 'child', lambda: optree.treespec_list([optree.treespec_dict(d, **kw), L], **kw).child(0)
    yield 'broadcast', lambda: optree.treespec_dict(d, **kw).broadcast_to_common_suffix(optree.tree_structure({'b': (1, 2), 'a': (1, 2), 'c': 3}, **kw))
    yield 'transform', lambda: optree.treespec_dict(d, **kw).transform(lambda s: s, lambda s: T)
    yield 'one_level', lambda: optree.treespec_dict(d, **kw).one_level()

def cases(tier):
    for mode in ('sorted', 'ins_global', 'ins_ns'):
        for nil in (False, True):
            for ns in ('', NS):
                for i in range(16):
                    for proto in ((2, 5) if tier == 'quick' else (2, 3, 4, 5)):
                        for load_mode in ('same', 'sorted', 'ins_global', 'ins_ns'):
                            if load_mode != mode:
                                yield (mode, nil, ns, i, proto, load_mode)

def facts(s):
    leaves = list(range(s.num_leaves))
    tree = s.unflatten(leaves)
    def order(x, out):
        if isinstance(x, dict):
            out.append(list(x)); [order(v, out) for v in x.values()]
        elif isinstance(x, (list, tuple)):
            [order(v, out) for v in x]
        elif isinstance(x, Rec):
            out.append(list(x.kw)); [order(v, out) for v in x.kw.values()]
        return out
    return {'repr': repr(s), 'paths': s.paths(), 'accessors': [repr(a) for a in s.accessors()], 'entries': s.entries(),
            'children': [repr(c) for c in s.children()], 'num': (s.num_leaves, s.num_nodes, s.num_children), 'flags': (s.none_is_leaf, s.namespace),
            'rebuilt': repr(tree), 'key_orders': order(tree, [])}

def check(spec):
    mode, nil, ns, i, proto, load_mode = spec
    kw = dict(none_is_leaf=nil, namespace=ns)
    bad = []
    if load_mode != 'same':
        # dumped under one dict-order mode, loaded under another one: the loaded treespec still equals the dumped one and
        # unflattens in the recorded key order
        with mode_ctx(mode):
            name, make = list(routes(kw))[i]
            try:
                s = make()
            except Exception:
                return []
            data = pickle.dumps(s, protocol=proto)
            fs = facts(s)
        what = f'treespec {s!r} obtained via {name} (dumped in mode {mode}, loaded in mode {load_mode}, none_is_leaf={nil}, namespace={ns!r})'
        with mode_ctx(load_mode):
            try:
                t = pickle.loads(data)
                ft = facts(t)
                again = pickle.loads(pickle.dumps(t, protocol=proto))
            except Exception as e:
                return [('C11.roundtrip_across_dict_order_modes', f'{what}: raised {type(e).__name__}: {e}')]
            if not (t == s and hash(t) == hash(s) and again == s):
                bad.append(('C11.roundtrip_across_dict_order_modes', f'{what}: loaded {t!r} is not equal to the dumped treespec'))
            for k in fs:
                if fs[k] != ft[k]:
                    bad.append(('C11.roundtrip_across_dict_order_modes', f'{what}: {k} before {fs[k]!r}, after loading {ft[k]!r}'))
        return bad
    with mode_ctx(mode):
        name, make = list(routes(kw))[i]
        try:
            s = make()
        except Exception as e:
            return []          # this route is not available for this combination (e.g. custom node outside its namespace)
        what = f'treespec {s!r} obtained via {name} (mode {mode}, none_is_leaf={nil}, namespace={ns!r})'
        try:
            data = pickle.dumps(s, protocol=proto)
        except Exception as e:
            return [('C11.roundtrip_of_constructed_treespecs', f'{what}: pickle.dumps(protocol={proto}) raised {type(e).__name__}: {e}')]
        try:
            t = pickle.loads(data)
        except Exception as e:
            return [('C11.roundtrip_of_constructed_treespecs', f'{what}: pickle.loads raised {type(e).__name__}: {e}')]
        if not (t == s and s == t and hash(t) == hash(s)):
            bad.append(('C11.roundtrip_of_constructed_treespecs', f'{what}: the unpickled treespec {t!r} is not equal (or hashes differently)'))
        fs, ft = facts(s), facts(t)
        for k in fs:
            if fs[k] != ft[k]:
                bad.append(('C11.roundtrip_of_constructed_treespecs', f'{what}: {k} before {fs[k]!r}, after the round trip {ft[k]!r}'))
        c = copy.deepcopy(s)
        if not (c == s and facts(c) == fs):
            bad.append(('C11.roundtrip_of_constructed_treespecs', f'{what}: copy.deepcopy gives {c!r} with other observable facts'))
    return bad
'''


def run(tier, seed):
    return run_core('c11_extra', CORE, tier,
                    scope='16 ways to obtain a treespec without flattening (constructors, compose, child, broadcast, transform, one_level) x '
                          '{sorted, insertion-ordered globally, insertion-ordered in one namespace} x none_is_leaf x 2 namespaces x pickle protocols x the dict-order mode at load time',
                    rule='one evaluation = one treespec pickled, unpickled and compared on ==, hash, repr, paths, accessors, entries, children, '
                         'rebuilt tree and rebuilt key orders')
