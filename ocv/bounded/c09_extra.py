"""C09 bounded monitor, part 2: permuted key orders and option forwarding of the broadcast family.

Two families of inputs the first monitor (c09_broadcast) does not construct:

A. *Same key set, different key order.*  Two mapping nodes (dict / defaultdict / OrderedDict in all combinations) whose
   keys are equal as a set but stored in different orders - which needs either unsortable keys (insertion order is the
   fallback) or dict-insertion-ordered mode in a namespace - and whose children differ per key.  Clauses:
     C09.permuted_common_suffix     a.broadcast_to_common_suffix(b) raises ValueError iff some per-key pair of children
                                    conflicts; otherwise it equals the treespec of {k: common(a[k], b[k]) for k in a's order}
     C09.permuted_tree_common       tree_broadcast_common(a, b) has a's / b's own key order and per-key replicated leaves
     C09.permuted_broadcast_prefix  tree_broadcast_prefix(a, b) (a a prefix of b) replicates a[k] onto b[k] for each key k
B. *Options reach every inner traversal.*  Full trees that contain, strictly below a prefix leaf, (i) a node type that is
   registered only in a namespace, (ii) None, (iii) a node that the is_leaf predicate stops at.  The expected value is
   computed by a reference replicate() written from the property text.  Clauses:
     C09.options_broadcast_prefix   tree_broadcast_prefix / broadcast_prefix under (is_leaf, none_is_leaf, namespace)
     C09.options_broadcast_common   tree_broadcast_common / broadcast_common / tree_broadcast_map under the same options

Scope: exhaustive over the enumerations below (quick: 2 keys x 4 child shapes, every 7th case of 3 keys; thorough: 2 keys x 6
shapes, 3 keys x 4 shapes, 4 keys x 2 shapes x every third permutation).
"""
from __future__ import annotations

import itertools
import zlib

from ocv.result import BoundedReport, Finding

CORE = r'''
import collections, itertools, sys
import optree

class K:
    """unsortable, hashable key"""
    def __init__(self, n): self.n = n
    def __repr__(self): return f'K{self.n}'
KEYS_UNSORTABLE = [K(0), K(1), K(2), K(3)]
KEYS_SORTABLE = ['a', 'b', 'c', 'd']
NS = 'c09x'

class Pair:
    def __init__(self, x, y): self.x, self.y = x, y
    def __eq__(self, o): return type(o) is Pair and (self.x, self.y) == (o.x, o.y)
    def __repr__(self): return f'Pair({self.x!r}, {self.y!r})'
try:
    optree.register_pytree_node(Pair, lambda p: ((p.x, p.y), None, None), lambda m, c: Pair(*c), namespace=NS)
except ValueError:
    pass

SHAPES = {'leaf': 0, 't1': (0,), 't2': (0, 0), 'l1': [0], 'l2': [0, 0], 'n': None}

def mk(kind, keys, children):
    items = list(zip(keys, children))
    if kind == 'dict': return dict(items)
    if kind == 'odict': return collections.OrderedDict(items)
    d = collections.defaultdict(int); d.update(items); return d

def common_shape(x, y):
    """least structure both shapes are prefixes of (shapes: 0 | tuple | list | None); 'conflict' otherwise"""
    if x == 0 and not isinstance(x, (tuple, list)): return y
    if y == 0 and not isinstance(y, (tuple, list)): return x
    if x is None or y is None:
        return None if (x is None and y is None) else 'conflict'
    if type(x) is not type(y) or len(x) != len(y): return 'conflict'
    out = [common_shape(p, q) for p, q in zip(x, y)]
    return 'conflict' if 'conflict' in out else type(x)(out)

def fill(shape, v):
    if shape is None: return None
    if isinstance(shape, (tuple, list)): return type(shape)(fill(s, v) for s in shape)
    return v

def label(shape, prefix):
    """replace the leaves of a shape by distinct labels"""
    if shape is None: return None
    if isinstance(shape, (tuple, list)): return type(shape)(label(s, prefix + (i,)) for i, s in enumerate(shape))
    return ('leaf',) + prefix

class L:
    """opaque leaf value"""
    def __init__(self, tag): self.tag = tag
    def __eq__(self, o): return type(o) is L and o.tag == self.tag
    def __hash__(self): return hash(self.tag)
    def __repr__(self): return f'L{self.tag!r}'

def lab(shape, tag):
    if shape is None: return None
    if isinstance(shape, (tuple, list)): return type(shape)(lab(s, tag + (i,)) for i, s in enumerate(shape))
    return L(tag)

def replicate(val_tree, shape):
    """val_tree (labelled, structure = a prefix of shape) broadcast onto shape"""
    if isinstance(val_tree, L): return fill(shape, val_tree)
    if val_tree is None: return None
    return type(val_tree)(replicate(v, s) for v, s in zip(val_tree, shape))

def eq_tree(x, y):
    if type(x) is not type(y): return False
    if isinstance(x, (dict,)):
        return list(x) == list(y) and all(eq_tree(x[k], y[k]) for k in x)
    if isinstance(x, (tuple, list)):
        return len(x) == len(y) and all(eq_tree(p, q) for p, q in zip(x, y))
    return x == y

def case_permuted(spec):
    """spec = (mode, kind_a, kind_b, n, perm_b, shapes_a, shapes_b)"""
    mode, kind_a, kind_b, n, perm_b, shapes_a, shapes_b = spec
    keys = (KEYS_UNSORTABLE if mode == 'unsortable' else KEYS_SORTABLE)[:n]
    keys_b = [keys[i] for i in perm_b]
    sa = dict(zip(keys, [SHAPES[s] for s in shapes_a]))
    sb = dict(zip(keys, [SHAPES[s] for s in shapes_b]))
    ta = mk(kind_a, keys, [lab(sa[k], ('a', i)) for i, k in enumerate(keys)])
    tb = mk(kind_b, keys_b, [lab(sb[k], ('b', keys.index(k))) for k in keys_b])
    ns = NS if mode == 'insertion' else ''
    bad = []
    def go():
        spec_a = optree.tree_structure(ta, namespace=ns)
        spec_b = optree.tree_structure(tb, namespace=ns)
        want = {k: common_shape(sa[k], sb[k]) for k in keys}
        conflict = any(isinstance(w, str) for w in want.values())
        # 1. treespec level
        for (x, y, kx, order, tag) in ((spec_a, spec_b, kind_a, keys, 'a.broadcast(b)'), (spec_b, spec_a, kind_b, keys_b, 'b.broadcast(a)')):
            try:
                got = x.broadcast_to_common_suffix(y)
            except ValueError as e:
                if not conflict:
                    bad.append(('C09.permuted_common_suffix', f'{tag} raised ValueError({e}) for non-conflicting trees a={ta!r} b={tb!r}'))
                continue
            if conflict:
                bad.append(('C09.permuted_common_suffix', f'{tag} returned {got!r} for conflicting trees a={ta!r} b={tb!r}'))
                continue
            ref = optree.tree_structure(mk(kx, order, [fill(want[k], 0) for k in order]), namespace=ns)
            if got != ref:
                bad.append(('C09.permuted_common_suffix', f'{tag} = {got!r}, expected {ref!r} (per-key least common structure in the '
                            f"receiver's key order) for a={ta!r} b={tb!r}"))
        # 2. tree level
        try:
            ra, rb = optree.tree_broadcast_common(ta, tb, namespace=ns)
        except ValueError as e:
            if not conflict:
                bad.append(('C09.permuted_tree_common', f'tree_broadcast_common raised ValueError({e}) for non-conflicting a={ta!r} b={tb!r}'))
        else:
            if conflict:
                bad.append(('C09.permuted_tree_common', f'tree_broadcast_common returned for conflicting a={ta!r} b={tb!r}'))
            else:
                ea = mk(kind_a, keys, [replicate(ta[k], want[k]) for k in keys])
                eb = mk(kind_b, keys_b, [replicate(tb[k], want[k]) for k in keys_b])
                if not (eq_tree(ra, ea) and eq_tree(rb, eb)):
                    bad.append(('C09.permuted_tree_common', f'tree_broadcast_common(a, b) = ({ra!r}, {rb!r}), expected ({ea!r}, {eb!r}) '
                                f'for a={ta!r} b={tb!r}'))
        # 3. prefix broadcast when a is a prefix of b key by key
        is_prefix = (not conflict) and all(want[k] == sb[k] for k in keys)
        try:
            rp = optree.tree_broadcast_prefix(ta, tb, namespace=ns)
        except ValueError as e:
            if is_prefix:
                bad.append(('C09.permuted_broadcast_prefix', f'tree_broadcast_prefix raised ValueError({e}) although a={ta!r} is a prefix of b={tb!r}'))
        else:
            if not is_prefix:
                bad.append(('C09.permuted_broadcast_prefix', f'tree_broadcast_prefix returned {rp!r} although a={ta!r} is no prefix of b={tb!r}'))
            else:
                exp = {k: replicate(ta[k], sb[k]) for k in keys}
                if not (set(map(id, rp)) == set(map(id, keys)) and all(eq_tree(rp[k], exp[k]) for k in keys)):
                    bad.append(('C09.permuted_broadcast_prefix', f'tree_broadcast_prefix(a, b) = {rp!r}, expected per key {exp!r} for a={ta!r} b={tb!r}'))
    if mode == 'insertion':
        with optree.dict_insertion_ordered(True, namespace=NS):
            go()
    else:
        go()
    return bad

# ---- part B: options ------------------------------------------------------------------------------------------------
class Stop(tuple):
    """a tuple subclass that the predicate stops at (without the predicate it is a leaf anyway: not a registered type)"""

def is_stop(x):
    return type(x) is list and len(x) == 3          # the predicate makes 3-element lists leaves

def ref_fill(sub, v, opts):
    """rebuild `sub` with every leaf (under opts) replaced by v"""
    use_pred, nil, ns = opts
    if use_pred and is_stop(sub): return v
    if sub is None: return v if nil else None
    if type(sub) is Pair:
        return Pair(ref_fill(sub.x, v, opts), ref_fill(sub.y, v, opts)) if ns == NS else v
    if type(sub) in (tuple, list): return type(sub)(ref_fill(s, v, opts) for s in sub)
    if type(sub) is dict: return {k: ref_fill(sub[k], v, opts) for k in sub}    # a rebuilt dict keeps the source key order
    return v

def ref_leaves(t, opts):
    out = []
    def rec(s):
        use_pred, nil, ns = opts
        if use_pred and is_stop(s): out.append(s); return
        if s is None:
            if nil: out.append(s)
            return
        if type(s) is Pair:
            if ns == NS: rec(s.x); rec(s.y)
            else: out.append(s)
            return
        if type(s) in (tuple, list):
            for c in s: rec(c)
            return
        if type(s) is dict:
            for k in sorted(s): rec(s[k])
            return
        out.append(s)
    rec(t)
    return out

SUBS = [
    lambda: 7,
    lambda: Pair(1, 2),
    lambda: [Pair(1, (2, 3)), 4],
    lambda: (None, 5),
    lambda: [1, 2, 3],
    lambda: {'y': [1, 2, 3], 'x': Pair(None, [4, 5, 6])},
    lambda: Pair(Pair(1, None), [None, None, None]),
    lambda: None,
]

def case_options(spec):
    """spec = (i, j, use_pred, nil, ns): full tree = {'p': SUBS[i](), 'q': (SUBS[j](), 9)}, prefix = {'p': A, 'q': (B, C)}"""
    i, j, use_pred, nil, ns = spec
    opts = (use_pred, nil, ns)
    kw = dict(is_leaf=(is_stop if use_pred else None), none_is_leaf=nil, namespace=ns)
    A, B, C = L('A'), L('B'), L('C')
    full = {'p': SUBS[i](), 'q': (SUBS[j](), 9)}
    prefix = {'p': A, 'q': (B, C)}
    bad = []
    exp = {'p': ref_fill(full['p'], A, opts), 'q': (ref_fill(full['q'][0], B, opts), C)}
    exp_leaves = ref_leaves(exp, opts)
    try:
        got = optree.tree_broadcast_prefix(prefix, full, **kw)
        got_leaves = optree.broadcast_prefix(prefix, full, **kw)
    except Exception as e:
        bad.append(('C09.options_broadcast_prefix', f'broadcast of prefix {prefix!r} onto {full!r} under {opts!r} raised {type(e).__name__}: {e}'))
    else:
        if not eq_tree(got, exp):
            bad.append(('C09.options_broadcast_prefix', f'tree_broadcast_prefix({prefix!r}, {full!r}) under (pred, none_is_leaf, namespace)={opts!r} = {got!r}, expected {exp!r}'))
        if got_leaves != exp_leaves:
            bad.append(('C09.options_broadcast_prefix', f'broadcast_prefix({prefix!r}, {full!r}) under {opts!r} = {got_leaves!r}, expected {exp_leaves!r}'))
    # common: prefix vs full in both orders; the common structure is full's (prefix is a prefix of full)
    try:
        r1, r2 = optree.tree_broadcast_common(prefix, full, **kw)
        l1, l2 = optree.broadcast_common(prefix, full, **kw)
        m = optree.tree_broadcast_map(lambda a, b: (a, b), prefix, full, **kw)
    except Exception as e:
        bad.append(('C09.options_broadcast_common', f'broadcast_common of {prefix!r} and {full!r} under {opts!r} raised {type(e).__name__}: {e}'))
    else:
        full_leaves = ref_leaves(full, opts)
        if not eq_tree(r1, exp) or ref_leaves(r2, opts) != full_leaves:
            bad.append(('C09.options_broadcast_common', f'tree_broadcast_common({prefix!r}, {full!r}) under {opts!r} = ({r1!r}, {r2!r}), expected ({exp!r}, the full tree)'))
        if l1 != exp_leaves or l2 != full_leaves:
            bad.append(('C09.options_broadcast_common', f'broadcast_common({prefix!r}, {full!r}) under {opts!r} = ({l1!r}, {l2!r}), expected ({exp_leaves!r}, {full_leaves!r})'))
        if ref_leaves(m, (False, True, ns)) != [x for pair in zip(exp_leaves, full_leaves) for x in pair] and \
                optree.tree_leaves(m, is_leaf=lambda x: type(x) is tuple and len(x) == 2 and type(x[0]) is L, none_is_leaf=nil, namespace=ns) \
                != list(zip(exp_leaves, full_leaves)):
            bad.append(('C09.options_broadcast_common', f'tree_broadcast_map over ({prefix!r}, {full!r}) under {opts!r} = {m!r}: argument pairs differ from {list(zip(exp_leaves, full_leaves))!r}'))
    return bad
'''

_ns: dict = {}
exec(compile(CORE, __file__ + ':CORE', 'exec'), _ns)   # noqa: S102 - the same text is embedded in every replay script


def _replay(fn: str, spec) -> str:
    return CORE + f'\nbad = {fn}({spec!r})\nfor k, w in bad[:5]:\n    print("VIOLATION:", k, w)\nsys.exit(1 if bad else 0)\n'


def run(tier: str, seed: int) -> BoundedReport:
    rep = BoundedReport(name='c09_extra', exhaustive=True,
                        scope='mapping pairs with equal key sets in different stored orders (unsortable keys | insertion-ordered '
                              'namespace) x dict kinds x per-key child shapes; option grid (is_leaf, none_is_leaf, namespace) over '
                              'full trees with namespace-only nodes / None / predicate leaves strictly below prefix leaves',
                        rule='one evaluation = one (tree pair, options) case checked against the reference; non-trivial = the '
                             'stored key orders differ (part A) or the options change the expected result (part B)')
    found: dict[str, list] = {}

    def record(fn, spec, bad):
        for key, what in bad:
            lst = found.setdefault(key, [])
            if len(lst) < 4:
                lst.append(Finding(key=key, what=what, script=_replay(fn, spec)))

    kinds = ['dict', 'odict', 'ddict']
    shapes_quick = ['leaf', 't1', 't2', 'l1']
    shapes_all = ['leaf', 't1', 't2', 'l1', 'l2', 'n']
    sizes = [2, 3] if tier == 'quick' else [2, 3, 4]
    samples = []
    for mode in ('unsortable', 'insertion'):
        for n in sizes:
            shp = shapes_all if (tier != 'quick' and n == 2) else shapes_quick
            if n == 4:
                shp = ['leaf', 't2']
            perms = [p for p in itertools.permutations(range(n)) if p != tuple(range(n))]
            if n == 4 and tier != 'quick':
                perms = perms[::3]
            for ka, kb in itertools.product(kinds, kinds):
                for perm in perms:
                    for sa in itertools.product(shp, repeat=n):
                        for sb in itertools.product(shp, repeat=n):
                            if n >= 3 and tier == 'quick' and (zlib.crc32(repr((sa, sb)).encode()) % 7):
                                continue
                            spec = (mode, ka, kb, n, perm, sa, sb)
                            rep.evaluations += 1
                            if sa != sb:
                                rep.distinct_nontrivial += 1
                            if len(samples) < 3:
                                samples.append(repr(spec))
                            try:
                                bad = _ns['case_permuted'](spec)
                            except Exception as e:  # noqa: BLE001
                                bad = [('C09.unexpected_exception', f'case {spec!r} raised {type(e).__name__}: {e}')]
                            record('case_permuted', spec, bad)
    nsub = len(_ns['SUBS'])
    for i in range(nsub):
        for j in range(nsub):
            for use_pred in (False, True):
                for nil in (False, True):
                    for ns in ('', _ns['NS']):
                        spec = (i, j, use_pred, nil, ns)
                        rep.evaluations += 1
                        rep.distinct_nontrivial += 1
                        try:
                            bad = _ns['case_options'](spec)
                        except Exception as e:  # noqa: BLE001
                            bad = [('C09.unexpected_exception', f'case {spec!r} raised {type(e).__name__}: {e}')]
                        record('case_options', spec, bad)
    samples.append(repr((1, 2, True, False, 'c09x')))
    rep.samples = samples
    rep.findings = [f for lst in found.values() for f in lst]
    return rep
