"""C04 bounded monitor: paths and accessors address exactly the leaves.

Oracle (from the statement): accessor_i(tree) is leaf_i; accessor_i.path == path_i; every path entry is the
key/index/declared entry under which the child sits in its parent (reference one-level expansion of
`_util_a.ref_expand`), typed with the documented entry class, the parent's exact type and kind (+ field names);
paths pairwise distinct and prefix-free; accessor ==/hash consistent; slicing/concatenation compose access;
codify()/eval agreement for entry classes that generate real code and keys with a literal repr.
"""
from __future__ import annotations

import ast
import dataclasses
import functools

import optree
from ocv.bounded import _util_a as U
from ocv.bounded import scope as S
from ocv.bounded._util_a import ids_equal, kw, mode, ref_expand, ref_sorted_keys, ref_walk  # noqa: F401

PROP = 'C04'


# ---- check functions (pasted into replay scripts) ------------------------------------------------

def expected_entry(parent, kindname):
    """(entry class, PyTreeKind) documented for the children of `parent` (accessor.py / registry defaults)."""
    K = optree.PyTreeKind
    table = {'tuple': (optree.SequenceEntry, K.TUPLE), 'list': (optree.SequenceEntry, K.LIST),
             'deque': (optree.SequenceEntry, K.DEQUE), 'dict': (optree.MappingEntry, K.DICT),
             'OrderedDict': (optree.MappingEntry, K.ORDEREDDICT), 'defaultdict': (optree.MappingEntry, K.DEFAULTDICT),
             'namedtuple': (optree.NamedTupleEntry, K.NAMEDTUPLE), 'structseq': (optree.StructSequenceEntry, K.STRUCTSEQUENCE)}
    if kindname in table:
        return table[kindname]
    t = type(parent)
    if t is S.CustomE:
        return S.CustomEEntry, K.CUSTOM                    # registered path_entry_type
    if dataclasses.is_dataclass(t):
        return optree.DataclassEntry, K.CUSTOM             # optree.dataclasses registers DataclassEntry
    if isinstance(parent, functools.partial):
        return optree.GetAttrEntry, K.CUSTOM               # TREE_PATH_ENTRY_TYPE of optree.functools.partial
    return optree.FlattenedEntry, K.CUSTOM                 # AutoEntry fallback for plain classes


def literal_key(k):
    try:
        v = ast.literal_eval(repr(k))
        return type(v) is type(k) and v == k
    except Exception:
        return False


def chk_access(tree, o):
    out = []
    k = kw(o)
    with mode(o):
        accs, leaves, spec = optree.tree_flatten_with_accessor(tree, **k)
        paths = optree.tree_paths(tree, **k)
        ref_leaves, ref_paths, _ = ref_walk(tree, o)
        if len(accs) != len(leaves) or len(paths) != len(leaves):
            return [('C04.accessor_returns_leaf', f'{len(accs)} accessors, {len(paths)} paths, {len(leaves)} leaves')]
        if ids_equal(leaves, ref_leaves) and (paths != ref_paths or any(
                type(a) is not type(b) for p, q in zip(paths, ref_paths) for a, b in zip(p, q))):
            out.append(('C04.path_entries', f'paths {paths!r}, expected (key/index/declared entry of each parent) {ref_paths!r}'))
        real_code = (optree.SequenceEntry, optree.MappingEntry, optree.NamedTupleEntry, optree.StructSequenceEntry,
                     optree.GetAttrEntry, optree.DataclassEntry, S.CustomEEntry)
        for i, (a, leaf) in enumerate(zip(accs, leaves)):
            if a.path != paths[i] or type(a.path) is not tuple or len(a) != len(paths[i]):
                out.append(('C04.accessor_path', f'accessor {i} path {a.path!r} != path {i} {paths[i]!r}'))
            # entry typing, walking down by the reference expansion
            cur, chain, exposed, broken = tree, [tree], True, False
            for depth, e in enumerate(a):
                exp = ref_expand(cur, o)
                if exp is None:
                    out.append(('C04.entry_value', f'accessor {i} {a!r}: step {depth} descends into the leaf {cur!r}'))
                    broken = True
                    break
                cls, kind = expected_entry(cur, exp[0])
                if type(e) is not cls:
                    out.append(('C04.entry_class', f'accessor {i} step {depth}: {type(e).__name__} for a parent {cur!r}, expected {cls.__name__}'))
                if e.type is not type(cur):
                    out.append(('C04.entry_type', f'accessor {i} step {depth}: entry.type {e.type!r} for a parent of type {type(cur)!r}'))
                if e.kind != kind or type(e.kind) is not optree.PyTreeKind:
                    out.append(('C04.entry_kind', f'accessor {i} step {depth}: entry.kind {e.kind!r}, expected {kind!r}'))
                children = [c for en, c in exp[1] if en == e.entry and type(en) is type(e.entry)]
                if len(children) != 1:
                    out.append(('C04.entry_value', f'accessor {i} step {depth}: entry {e.entry!r} is not a child entry of {cur!r} '
                                f'(entries {[en for en, _ in exp[1]]!r})'))
                    broken = True
                    break
                if exp[0] == 'namedtuple' and e.field != type(cur)._fields[e.entry] or \
                        exp[0] == 'structseq' and e.field != type(cur).__match_args__[e.entry]:
                    out.append(('C04.entry_field_name', f'accessor {i} step {depth}: field {e.field!r} for index {e.entry} of {type(cur)!r}'))
                if isinstance(e, optree.SequenceEntry) and e.index != e.entry or isinstance(e, optree.MappingEntry) and e.key is not e.entry:
                    out.append(('C04.entry_value', f'accessor {i} step {depth}: index/key property differs from entry {e.entry!r}'))
                if cls is optree.FlattenedEntry and not hasattr(type(cur), '__getitem__'):
                    exposed = False       # custom node that does not expose its children via its (flat index) entries: out of the quantifier
                cur = children[0]
                chain.append(cur)
            if broken:
                continue
            if chain[-1] is not leaf:
                out.append(('C04.path_entries', f'accessor {i} {a!r}: following its entries by key/index leads to {chain[-1]!r}, leaf {i} is {leaf!r}'))
            n = len(a)
            if exposed:
                try:
                    got = a(tree)
                except Exception as ex:
                    out.append(('C04.accessor_returns_leaf', f'accessor {i} {a!r} raised {type(ex).__name__}: {ex}'))
                    continue
                if got is not leaf:
                    out.append(('C04.accessor_returns_leaf', f'accessor {i} {a!r} returned {got!r}, leaf {i} is {leaf!r}'))
                for depth, e in enumerate(a):
                    if e(chain[depth]) is not chain[depth + 1]:
                        out.append(('C04.entry_value', f'accessor {i} step {depth}: entry({chain[depth]!r}) is not the child under {e.entry!r}'))
                for cut in range(n + 1):     # a[:k] is the k-step prefix; (a[:k] + a[k:])(x) == a[k:](a[:k](x))
                    left, right = a[:cut], a[cut:]
                    if left(tree) is not chain[cut] or right(chain[cut]) is not got or (left + right)(tree) is not got:
                        out.append(('C04.composition', f'accessor {i} {a!r}: a[:{cut}](tree) / a[{cut}:] do not compose access'))
            # slicing / concatenation laws on the accessor values
            for cut in range(n + 1):
                left, right = a[:cut], a[cut:]
                if type(left) is not optree.PyTreeAccessor or left + right != a or hash(left + right) != hash(a) \
                        or left.path + right.path != a.path:
                    out.append(('C04.composition', f'accessor {i} {a!r}: a[:{cut}] + a[{cut}:] != a'))
                if cut < n and (left + a[cut] != a[:cut + 1] or type(left + a[cut]) is not optree.PyTreeAccessor):
                    out.append(('C04.composition', f'accessor {i} {a!r}: a[:{cut}] + a[{cut}] != a[:{cut + 1}]'))
            if n >= 2 and a[0] + a[1] != a[:2]:
                out.append(('C04.composition', f'accessor {i} {a!r}: entry + entry != a[:2]'))
            if a[:0](tree) is not tree or optree.PyTreeAccessor()(tree) is not tree:
                out.append(('C04.composition', 'the empty accessor does not return the tree itself'))
            # equality / hash
            copy = optree.PyTreeAccessor(tuple(type(e)(e.entry, e.type, e.kind) for e in a))
            if copy != a or not (copy == a) or hash(copy) != hash(a) or any(x != y or hash(x) != hash(y) for x, y in zip(copy, a)):
                out.append(('C04.accessor_eq_hash', f'rebuilt copy of accessor {i} {a!r} is not equal / hashes differently'))
            # codify / eval
            if all(type(e) in real_code for e in a) and all(literal_key(e.entry) for e in a):
                code = a.codify('tree')
                try:
                    val = eval(code, {'tree': tree})
                    if val is not leaf:
                        out.append(('C04.codify_eval', f'accessor {i}: eval({code!r}) = {val!r}, leaf is {leaf!r}'))
                except Exception as ex:
                    out.append(('C04.codify_eval', f'accessor {i}: eval({code!r}) raised {type(ex).__name__}: {ex}'))
                if a.codify() != '*' + code[4:]:
                    out.append(('C04.codify_eval', f'accessor {i}: codify() = {a.codify()!r} vs codify("tree") = {code!r}'))
        # distinctness, prefix-freeness, equality between different leaves
        for i in range(len(paths)):
            for j in range(len(paths)):
                if i == j:
                    continue
                if paths[i] == paths[j]:
                    out.append(('C04.paths_distinct', f'paths {i} and {j} are both {paths[i]!r}'))
                elif len(paths[i]) < len(paths[j]) and paths[j][:len(paths[i])] == paths[i]:
                    out.append(('C04.paths_prefix_free', f'path {i} {paths[i]!r} is a proper prefix of path {j} {paths[j]!r}'))
                if accs[i] == accs[j] or not (accs[i] != accs[j]):
                    out.append(('C04.accessor_eq_hash', f'accessors {i} and {j} of different leaves compare equal: {accs[i]!r}'))
    return out


FN_SRC = None


def fn_src():
    global FN_SRC
    if FN_SRC is None:
        FN_SRC = 'import ast\n' + U.ref_src() + U.SRC(expected_entry, literal_key, chk_access)
    return FN_SRC


# ---- scope ---------------------------------------------------------------------------------------

def run(tier: str, seed: int):
    col = U.Collector('C04 bounded: accessors/paths address exactly the leaves')
    src = fn_src()
    if tier == 'quick':
        g, ds, txt = U.universe(tier, seed, U.EXT, quick_nodes=4, quick_limit=5000)
    else:
        g, ds, txt = U.universe(tier, seed, U.EXT, thorough_nodes=4)
        ds += U.random_descrs(seed, U.EXT, 5, 20000) + U.random_descrs(seed, U.EXT, 6, 12000) + U.random_descrs(seed, U.EXT, 7, 6000) \
            + U.random_descrs(seed, U.EXT, 9, 2000, childless=('leaf', 'leaf', 'none'))
        txt += '; 20000/12000/6000/2000 seeded random 5/6/7/9-node trees'
    codified = 0
    for i, d in enumerate(ds):
        tree = g.build(d)
        ks = U.kinds_in(d)
        has_dict = bool(ks & (U.DICT_KINDS | {'partial', 'partial_kw'}))
        for o in U.grid(ins_modes=(False, True) if has_dict else (False,)):
            U.run_checks(col, PROP, [chk_access], src, tree, lambda tree=tree: U.to_src(tree), o,
                         f'tree {S.show(d)} [{U.opt_repr(o)}]')
            if S.count_nodes(d) > 1 and 'leaf' in U.kinds_in(d):
                col.nontrivial((S.show(d), U.opt_repr(o)))
        if codified < 6 and i % 397 == 13 and optree.tree_leaves(tree):
            col.sample(f'{tree!r}: ' + ', '.join(a.codify('tree') for a in optree.tree_accessors(tree)))
            codified += 1
    return col.done(
        rule='non-trivial = tree with at least one internal node and at least one opaque leaf; counted per distinct '
             '(tree description, options)',
        scope=f'{txt}; kinds {U.EXT}; x none_is_leaf x namespace in {S.NAMESPACES} x is_leaf in [None, is_leaf_list, '
              f'is_leaf_dictlike] x dict-order mode (trees holding a dict/defaultdict); every accessor x every split point',
        exhaustive=False,
        notes='codify/eval only for accessors made of SequenceEntry/MappingEntry/NamedTupleEntry/StructSequenceEntry/'
              'GetAttrEntry/DataclassEntry/CustomEEntry with literal-repr keys (FlattenedEntry does not generate code); '
              'positional comparison with the reference paths is skipped when the leaf order itself deviates (that is C02); '
              'sibling entries of user-declared custom entries are assumed distinct (quantifier).',
    )
