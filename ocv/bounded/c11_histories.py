"""C11 bounded monitor (same-process registry histories).

Clause (property C11): "If a custom type recorded in the pickle is not registered in the recorded namespace of the
loading process, loading raises an exception"; otherwise the loaded treespec equals one flattened afresh there (equal
hash), and unflattens like it - for every *history* of registrations in the loading process (same registrations,
missing registration, re-registered type), not only for a fresh process.

Scope: all sequences of length <= 3 (quick) / 4 (thorough) over the operations
    reg(ns, variant)  for ns in {GLOBAL, 'h_a', 'h_b'}, variant in {1, 2}   (two different flatten/unflatten pairs)
    unreg(ns)
on one class; pickles are taken whenever the class is a node in some namespace, and after EVERY step every pickle taken
so far is loaded again and compared with an independent model of the registry (a dict namespace -> variant).  Equality with
a freshly flattened treespec / same unflatten is only demanded when the class is bound to the same registration functions
as when the pickle was taken (the property promises nothing for a type re-registered with different functions).
Exhaustive within that scope (invalid operations - duplicate registration, unregistering an absent entry - are kept in
the history and must fail without changing anything).
"""
from __future__ import annotations

import itertools
import pickle

import optree
from ocv.result import BoundedReport, Finding

NSS = ['', 'h_a', 'h_b']          # '' = global


def _global():
    import optree.registry as r
    return next(v for k, v in r.__dict__.items() if k.endswith('GLOBAL_NAMESPACE'))


REPLAY = '''import pickle, sys
import optree
import optree.registry as r
G = next(v for k, v in r.__dict__.items() if k.endswith('GLOBAL_NAMESPACE'))
class Box:
    def __init__(self, *c): self.c = list(c)
    def __eq__(self, o): return type(o) is Box and o.c == self.c
def reg(ns, variant):
    fl = (lambda b: (tuple(b.c), ('v', variant), None)) if variant == 1 else (lambda b: (tuple(reversed(b.c)), ('v', variant), None))
    un = (lambda m, ch: Box(*ch)) if variant == 1 else (lambda m, ch: Box(*reversed(ch)))
    optree.register_pytree_node(Box, fl, un, namespace=(G if ns == '' else ns))
def unreg(ns):
    optree.unregister_pytree_node(Box, namespace=(G if ns == '' else ns))
history = {history!r}
model = {{}}
blobs = []
bad = []
tree = [Box(1, (2, 3)), 4]
def step_check(tag):
    for ns_p, blob, dumped_with in blobs:
        bound = model.get(ns_p, model.get(''))
        try:
            spec = pickle.loads(blob)
        except Exception as e:
            if bound is not None:
                bad.append(f'{{tag}}: loads raised {{type(e).__name__}} although Box is registered for namespace {{ns_p!r}}')
            continue
        if bound is None:
            bad.append(f'{{tag}}: loads returned a treespec although Box is not registered for namespace {{ns_p!r}}')
            continue
        if bound != dumped_with:
            continue
        fresh = optree.tree_structure(tree, namespace=ns_p)
        if not (spec == fresh and hash(spec) == hash(fresh)):
            bad.append(f'{{tag}}: loaded treespec differs from one flattened afresh in namespace {{ns_p!r}}')
        leaves = list(range(spec.num_leaves))
        if spec.num_leaves == fresh.num_leaves and spec.unflatten(leaves) != fresh.unflatten(leaves):
            bad.append(f'{{tag}}: loaded treespec unflattens differently from the fresh one in namespace {{ns_p!r}}')
for k, op in enumerate(history):
    try:
        if op[0] == 'reg':
            reg(op[1], op[2]); ok = True
        else:
            unreg(op[1]); ok = True
    except ValueError:
        ok = False
    if ok and op[0] == 'reg': model[op[1]] = op[2]
    if ok and op[0] == 'unreg': model.pop(op[1], None)
    for ns in ['', 'h_a', 'h_b']:
        if model.get(ns, model.get('')) is not None:
            blobs.append((ns, pickle.dumps(optree.tree_structure(tree, namespace=ns)), model.get(ns, model.get(''))))
    step_check(f'after step {{k}} {{op}}')
for m in bad[:5]:
    print('VIOLATION:', m)
sys.exit(1 if bad else 0)
'''


class Box:
    def __init__(self, *c):
        self.c = list(c)

    def __eq__(self, o):
        return type(o) is Box and o.c == self.c

    def __repr__(self):
        return f'Box{tuple(self.c)!r}'


def _reg(ns, variant, G):
    fl = (lambda b: (tuple(b.c), ('v', variant), None)) if variant == 1 else \
        (lambda b: (tuple(reversed(b.c)), ('v', variant), None))
    un = (lambda m, ch: Box(*ch)) if variant == 1 else (lambda m, ch: Box(*reversed(ch)))
    optree.register_pytree_node(Box, fl, un, namespace=(G if ns == '' else ns))


def run(tier: str, seed: int) -> BoundedReport:
    G = _global()
    maxlen = 3 if tier == 'quick' else 4
    ops = [('reg', ns, v) for ns in NSS for v in (1, 2)] + [('unreg', ns) for ns in NSS]
    rep = BoundedReport(name='c11_histories', exhaustive=True,
                        scope=f'all operation sequences of length <= {maxlen} over {len(ops)} registry operations on one class',
                        rule='one evaluation = one pickle.loads compared with the registry model; an input is a '
                             '(history prefix, pickle) pair; non-trivial = the class is or was registered in some namespace')
    tree = [Box(1, (2, 3)), 4]
    distinct = set()
    found: dict[str, list] = {}

    def finding(key, what, history):
        lst = found.setdefault(key, [])
        if len(lst) < 5:
            lst.append(Finding(key=key, what=what, script=REPLAY.format(history=list(history))))

    for n in range(1, maxlen + 1):
        for history in itertools.product(ops, repeat=n):
            model: dict = {}
            blobs = []
            try:
                for k, op in enumerate(history):
                    try:
                        if op[0] == 'reg':
                            _reg(op[1], op[2], G)
                        else:
                            optree.unregister_pytree_node(Box, namespace=(G if op[1] == '' else op[1]))
                        ok = True
                    except ValueError:
                        ok = False
                    if ok and op[0] == 'reg':
                        model[op[1]] = op[2]
                    if ok and op[0] == 'unreg':
                        model.pop(op[1], None)
                    for ns in NSS:
                        if model.get(ns, model.get('')) is not None:
                            blobs.append((ns, pickle.dumps(optree.tree_structure(tree, namespace=ns)), model.get(ns, model.get(''))))
                    for ns_p, blob, dumped_with in blobs:
                        rep.evaluations += 1
                        distinct.add((history[:k + 1], ns_p, len(blob)))
                        bound = model.get(ns_p, model.get(''))
                        hist = history[:k + 1]
                        try:
                            spec = pickle.loads(blob)
                        except Exception as e:  # noqa: BLE001
                            if bound is not None:
                                finding('C11.load_with_same_registration_must_succeed',
                                        f'history {list(hist)}: loads raised {type(e).__name__} although Box is registered for '
                                        f'namespace {ns_p!r}', hist)
                            continue
                        if bound is None:
                            finding('C11.missing_registration_must_raise',
                                    f'history {list(hist)}: pickle.loads returned {spec!r} although Box is not registered for the '
                                    f'recorded namespace {ns_p!r}', hist)
                            continue
                        if bound != dumped_with:
                            continue      # different registration functions than at dump time: nothing is promised
                        fresh = optree.tree_structure(tree, namespace=ns_p)
                        if not (spec == fresh and hash(spec) == hash(fresh)):
                            finding('C11.reregistered_type_equal',
                                    f'history {list(hist)}: loaded treespec {spec!r} != treespec flattened afresh {fresh!r}', hist)
                        leaves = list(range(spec.num_leaves))
                        if spec.num_leaves == fresh.num_leaves and spec.unflatten(leaves) != fresh.unflatten(leaves):
                            finding('C11.reregistered_type_unflatten',
                                    f'history {list(hist)}: loaded treespec unflattens {spec.unflatten(leaves)!r}, the fresh one '
                                    f'{fresh.unflatten(leaves)!r}', hist)
            finally:
                for ns in NSS:
                    try:
                        optree.unregister_pytree_node(Box, namespace=(G if ns == '' else ns))
                    except ValueError:
                        pass
    rep.distinct_nontrivial = len(distinct)
    rep.samples = [repr(list(h)) for h in list(itertools.product(ops, repeat=2))[:3]]
    rep.findings = [f for lst in found.values() for f in lst]
    return rep
