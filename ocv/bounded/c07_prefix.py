"""C07 — prefix matching is exact and its three implementations agree (bounded monitor).

For every (prefix tree P, full tree F, options) of the scope the four answers
    treespec(P).flatten_up_to(F) succeeds      treespec(P).is_prefix(treespec(F))
    prefix_errors(P, F) == []                  reference  ref_prefix(abs(P), abs(F))
must coincide.  The reference is `_util_b.ref_prefix`, written from the property text: a leaf is a prefix of
anything; otherwise exact node type, arity, key-*set* equality for any two of dict / OrderedDict / defaultdict
(any order, any default factory), deque maxlen ignored, namedtuple / struct sequence class identity, custom
type identity + metadata equality, recursively on children aligned by key / position.

Clauses (finding keys)
  C07.flatten_up_to_matches_reference / C07.is_prefix_matches_reference / C07.prefix_errors_matches_reference
  C07.flatten_up_to_unexpected_exception   anything but ValueError
  C07.is_prefix_unexpected_exception       is_prefix / is_suffix / < <= > >= never raise
  C07.prefix_errors_unexpected_exception   prefix_errors returns a list, it never raises
  C07.prefix_errors_item                   every reported error is a callable producing a ValueError
  C07.flatten_up_to_subtrees               on success: i-th result is the subtree of F at the i-th leaf path of P
  C07.flatten_up_to_partition              the returned subtrees' leaves are F's leaves, each exactly once
  C07.tree_map_rests_agrees                tree_map_(f, P, F) succeeds iff prefix and passes the same subtrees
  C07.strict_prefix_matches_reference      a < b  <=>  a <= b and some leaf of a lies over a non-leaf node of b
  C07.operators_consistent                 <= / < / >= / > / is_suffix are is_prefix and its converses
  C07.order_reflexive, C07.order_transitive, C07.order_antisymmetric (up to dict kind / key order / maxlen)
  C07.unexpected_exception                 anything else raised while evaluating a pair
"""
from __future__ import annotations

import random

import optree

from ocv.bounded import _util_b as U
from ocv.bounded import scope as S
from ocv.result import BoundedReport

LEAF = ('leaf',)
T2 = ('tuple', [LEAF, LEAF])
T3 = ('tuple', [LEAF, LEAF, LEAF])

SCRIPT_EVAL = '''\
ps = optree.tree_structure(P, **o); fs = optree.tree_structure(F, **o)
def outcome(f):
    try:
        return ('ok', f())
    except ValueError:
        return ('ValueError', None)
    except BaseException as e:
        return (type(e).__name__, str(e)[:200])
r1 = outcome(lambda: ps.flatten_up_to(F))
r2 = outcome(lambda: ps.is_prefix(fs))
r2s = outcome(lambda: ps.is_prefix(fs, strict=True))
r3 = outcome(lambda: optree.prefix_errors(P, F, **o))
print('flatten_up_to:', r1[0], '| is_prefix:', r2, '| strict:', r2s, '| prefix_errors:', r3[0], len(r3[1]) if r3[0] == 'ok' else r3[1])
'''


class Case:
    __slots__ = ('pd', 'fd', 'o')

    def __init__(self, pd, fd, o):
        self.pd, self.fd, self.o = pd, fd, o

    def head(self):
        return f'P = {U.src(self.pd)}\nF = {U.src(self.fd)}\no = {U.opt_src(self.o)}\n' + SCRIPT_EVAL

    def label(self):
        return f'prefix {U.show(self.pd)}, full {U.show(self.fd)} [{S.opt_repr(self.o)}]'


def eval_case(c, bag, stats):
    P, F, o = U.build(c.pd), U.build(c.fd), c.o
    pa, fa = U.absify(P, **o), U.absify(F, **o)
    exp, exp_strict = U.ref_prefix(pa, fa)
    exp_strict = exp and exp_strict
    bag.ev()
    stats['pos' if exp else 'neg'] += 1
    st, ps = U.guard(optree.tree_structure, P, **o)
    st2, fs = U.guard(optree.tree_structure, F, **o)
    if st == 'exc' or st2 == 'exc':
        bag.add('C07.flatten_up_to_unexpected_exception', f'{c.label()}: tree_structure raised {U.exc_name(ps if st == "exc" else fs)}',
                c.head() + 'sys.exit(0)\n')
        return
    tail = f'expected = {exp!r}   # reference: P is a prefix of F\n'

    # 1. flatten_up_to
    st, r1 = U.guard(ps.flatten_up_to, F)
    if st == 'exc' and not isinstance(r1, ValueError):
        bag.add('C07.flatten_up_to_unexpected_exception', f'{c.label()}: flatten_up_to raised {U.exc_name(r1)} (only ValueError is allowed)',
                lambda: c.head() + "sys.exit(1 if r1[0] not in ('ok', 'ValueError') else 0)\n")
    elif (st == 'ok') != exp:
        bag.add('C07.flatten_up_to_matches_reference',
                f'{c.label()}: flatten_up_to {"succeeded" if st == "ok" else "raised " + U.exc_name(r1)}, reference says prefix = {exp}',
                lambda: c.head() + tail + "sys.exit(1 if (r1[0] == 'ok') != expected else 0)\n")
    elif st == 'ok':
        want = [n.obj for n in U.ref_up_to(pa, fa)]
        if len(r1) != len(want) or any(x is not y for x, y in zip(r1, want)):
            bag.add('C07.flatten_up_to_subtrees', f'{c.label()}: flatten_up_to returned {r1!r}, subtrees at the prefix leaf paths are {want!r}',
                    lambda: c.head() + 'want = [n.obj for n in U.ref_up_to(U.absify(P, **o), U.absify(F, **o))]\n'
                    "sys.exit(1 if r1[0] == 'ok' and not (len(r1[1]) == len(want) and all(x is y for x, y in zip(r1[1], want))) else 0)\n")
        got_leaves = [l for sub in r1 for l in U.a_leaves(U.absify(sub, **o))]
        all_leaves = U.a_leaves(fa)
        if sorted(map(id, got_leaves)) != sorted(map(id, all_leaves)):
            bag.add('C07.flatten_up_to_partition', f'{c.label()}: leaves of the returned subtrees {got_leaves!r} are not the leaves of F {all_leaves!r} once each',
                    lambda: c.head() + 'got = [l for sub in r1[1] for l in U.a_leaves(U.absify(sub, **o))]\n'
                    'sys.exit(1 if sorted(map(id, got)) != sorted(map(id, U.a_leaves(U.absify(F, **o)))) else 0)\n')
        # tree_map_ with a rest passes the same subtrees
        seen = []
        st5, r5 = U.guard(optree.tree_map_, lambda x, y: seen.append(y), P, F, **o)
        if st5 == 'exc' or len(seen) != len(r1) or any(x is not y for x, y in zip(seen, r1)):
            bag.add('C07.tree_map_rests_agrees', f'{c.label()}: tree_map_(f, P, F) {"raised " + U.exc_name(r5) if st5 == "exc" else "passed " + repr(seen)}, '
                                                 f'flatten_up_to gave {r1!r}',
                    lambda: c.head() + 'seen = []\ntry:\n    optree.tree_map_(lambda x, y: seen.append(y), P, F, **o)\nexcept Exception as e:\n    seen = e\n'
                    "sys.exit(1 if r1[0] == 'ok' and not (isinstance(seen, list) and len(seen) == len(r1[1]) and all(x is y for x, y in zip(seen, r1[1]))) else 0)\n")
    if st == 'exc' and isinstance(r1, ValueError):
        st5, r5 = U.guard(optree.tree_map_, lambda x, y: None, P, F, **o)
        if not (st5 == 'exc' and isinstance(r5, ValueError)):
            bag.add('C07.tree_map_rests_agrees', f'{c.label()}: flatten_up_to raised ValueError but tree_map_(f, P, F) '
                                                 f'{"raised " + U.exc_name(r5) if st5 == "exc" else "succeeded"}',
                    lambda: c.head() + 'try:\n    optree.tree_map_(lambda x, y: None, P, F, **o); r5 = "ok"\nexcept ValueError:\n    r5 = "ValueError"\n'
                    'except Exception as e:\n    r5 = type(e).__name__\n'
                    "sys.exit(1 if r1[0] == 'ValueError' and r5 != 'ValueError' else 0)\n")

    # 2. is_prefix and the operators
    ops = [('ps.is_prefix(fs)', lambda: ps.is_prefix(fs), exp), ('ps.is_prefix(fs, strict=True)', lambda: ps.is_prefix(fs, strict=True), exp_strict),
           ('ps <= fs', lambda: ps <= fs, exp), ('ps < fs', lambda: ps < fs, exp_strict),
           ('fs >= ps', lambda: fs >= ps, exp), ('fs > ps', lambda: fs > ps, exp_strict),
           ('fs.is_suffix(ps)', lambda: fs.is_suffix(ps), exp), ('fs.is_suffix(ps, strict=True)', lambda: fs.is_suffix(ps, strict=True), exp_strict),
           ('optree.treespec_is_prefix(ps, fs)', lambda: optree.treespec_is_prefix(ps, fs), exp),
           ('optree.treespec_is_suffix(fs, ps, strict=True)', lambda: optree.treespec_is_suffix(fs, ps, strict=True), exp_strict)]
    base = strict_base = None
    for k, (text, fn, want) in enumerate(ops):
        st, r = U.guard(fn)
        if st == 'exc':
            bag.add('C07.is_prefix_unexpected_exception', f'{c.label()}: {text} raised {U.exc_name(r)}',
                    lambda text=text: c.head() + f'try:\n    {text}\nexcept BaseException as e:\n    print(type(e).__name__, e); sys.exit(1)\nsys.exit(0)\n')
            if k == 0:
                break
            continue
        if k == 0:
            base = r
            if r != want:
                bag.add('C07.is_prefix_matches_reference', f'{c.label()}: is_prefix is {r}, reference says {want}',
                        lambda: c.head() + tail + "sys.exit(1 if r2 != ('ok', expected) else 0)\n")
        elif k == 1:
            strict_base = r
            if base == exp and r != want:
                bag.add('C07.strict_prefix_matches_reference', f'{c.label()}: is_prefix(strict=True) is {r}, reference says {want} '
                                                               f'(prefix: {exp}, a prefix leaf over a non-leaf node: {exp_strict})',
                        lambda: c.head() + f"sys.exit(1 if r2s != ('ok', {want!r}) else 0)\n")
        else:
            ref = base if k % 2 == 0 else strict_base
            if ref is not None and r != ref:
                bag.add('C07.operators_consistent', f'{c.label()}: {text} is {r} but is_prefix{"(strict)" if k % 2 else ""} is {ref}',
                        lambda text=text, k=k: c.head() + f"sys.exit(1 if ({text}) != ({'r2s' if k % 2 else 'r2'})[1] else 0)\n")

    # 3. prefix_errors
    st, r3 = U.guard(optree.prefix_errors, P, F, **o)
    if st == 'exc':
        bag.add('C07.prefix_errors_unexpected_exception', f'{c.label()}: prefix_errors raised {U.exc_name(r3)}',
                lambda: c.head() + "sys.exit(1 if r3[0] != 'ok' else 0)\n")
    else:
        if (not isinstance(r3, list)) or (len(r3) == 0) != exp:
            bag.add('C07.prefix_errors_matches_reference', f'{c.label()}: prefix_errors returned {len(r3)} error(s), reference says prefix = {exp}',
                    lambda: c.head() + tail + "sys.exit(1 if r3[0] == 'ok' and (len(r3[1]) == 0) != expected else 0)\n")
        for e in r3:
            st, v = U.guard(e, 'tree')
            if st == 'exc' or not isinstance(v, ValueError):
                bag.add('C07.prefix_errors_item', f'{c.label()}: an element of prefix_errors(...) called with a name gave {v!r}',
                        lambda: c.head() + 'bad = False\nfor e in r3[1]:\n    try:\n        bad |= not isinstance(e("tree"), ValueError)\n    except Exception:\n        bad = True\n'
                        'sys.exit(1 if bad else 0)\n')
                break


suffixes, equivalents, nested_dict_pairs, random_nested, hetero_pairs, equiv_sig, SUBS = \
    U.suffixes, U.equivalents, U.nested_dict_pairs, U.random_nested, U.hetero_pairs, U.equiv_sig, U.SUBS


def order_laws(descrs, o, bag):
    """Reflexivity, transitivity, antisymmetry and agreement with the reference on a whole population."""
    items = []
    for d in descrs:
        t = U.build(d)
        items.append((d, optree.tree_structure(t, **o), U.absify(t, **o)))
    rows = []
    for i, (d, s, a) in enumerate(items):
        r = 0
        for j, (d2, s2, a2) in enumerate(items):
            st, v = U.guard(s.is_prefix, s2)
            if st == 'exc':
                bag.add('C07.is_prefix_unexpected_exception', f'prefix {U.show(d)}, full {U.show(d2)} [{S.opt_repr(o)}]: is_prefix raised {U.exc_name(v)}',
                        lambda d=d, d2=d2: Case(d, d2, o).head() + "sys.exit(1 if r2[0] != 'ok' else 0)\n")
                v = U.ref_prefix(a, a2)[0]
            elif v != U.ref_prefix(a, a2)[0]:
                bag.add('C07.is_prefix_matches_reference', f'prefix {U.show(d)}, full {U.show(d2)} [{S.opt_repr(o)}]: is_prefix is {v}, reference says {not v}',
                        lambda d=d, d2=d2, v=v: Case(d, d2, o).head() + f"sys.exit(1 if r2 == ('ok', {v!r}) else 0)\n")
            if v:
                r |= 1 << j
        rows.append(r)
    bag.ev(len(items) ** 2)
    sigs = [equiv_sig(a) for _, _, a in items]
    for i, r in enumerate(rows):
        d, s, a = items[i]
        if not (r >> i) & 1 or s < s or not s <= s or not s >= s or s > s:
            bag.add('C07.order_reflexive', f'{U.show(d)} [{S.opt_repr(o)}]: s <= s must hold and s < s must not',
                    f's = optree.tree_structure({U.src(d)}, **{U.opt_src(o)})\nsys.exit(1 if not (s <= s and s >= s and s.is_prefix(s)) or s < s or s > s else 0)\n')
        m, j = r, 0
        while m:
            if m & 1 and j != i:
                if rows[j] & ~r:            # i <= j but something above j is not above i
                    k = (rows[j] & ~r).bit_length() - 1
                    bag.add('C07.order_transitive',
                            f'a = {U.show(d)}, b = {U.show(items[j][0])}, c = {U.show(items[k][0])} [{S.opt_repr(o)}]: a <= b and b <= c but not a <= c',
                            lambda j=j, k=k: f'o = {U.opt_src(o)}\na = optree.tree_structure({U.src(d)}, **o)\nb = optree.tree_structure({U.src(items[j][0])}, **o)\n'
                            f'c = optree.tree_structure({U.src(items[k][0])}, **o)\nsys.exit(1 if a <= b and b <= c and not a <= c else 0)\n')
                if (rows[j] >> i) & 1 and sigs[i] != sigs[j]:
                    bag.add('C07.order_antisymmetric',
                            f'a = {U.show(d)}, b = {U.show(items[j][0])} [{S.opt_repr(o)}]: a <= b and b <= a although they differ in more than dict kind / key order / maxlen',
                            lambda j=j: f'o = {U.opt_src(o)}\na = optree.tree_structure({U.src(d)}, **o)\nb = optree.tree_structure({U.src(items[j][0])}, **o)\n'
                            'sys.exit(1 if a <= b and b <= a else 0)\n')
            m >>= 1
            j += 1
    return len(items)


def run(tier: str, seed: int) -> BoundedReport:
    U.ensure_registered()
    quick = tier == 'quick'
    rng = random.Random(seed)
    bag = U.Bag('c07_prefix')
    stats = {'pos': 0, 'neg': 0}
    groups = {}
    opts6 = U.options(namespaces=('', U.NS, U.NS_OTHER))
    o_def, o_nil_ns = opts6[0], opts6[4]
    opts_pred = U.options(namespaces=('',), predicates=S.PREDICATES[1:])

    def go(name, pd, fd, o):
        c = Case(pd, fd, o)
        try:
            eval_case(c, bag, stats)
        except Exception as e:   # noqa: BLE001 - e.g. repr() of a returned object raising; never crash the monitor
            bag.add('C07.unexpected_exception', f'{c.label()}: {U.exc_name(e)}', c.head() + 'repr((r1, r2, r2s, r3))\nsys.exit(0)\n')
        bag.seen((U.freeze(pd), U.freeze(fd), U.opt_key(o)))
        groups[name] = groups.get(name, 0) + 1
        if groups[name] in (1, 40):
            bag.sample(f'{name}: {c.label()}')

    # G1 true suffixes (and their converses), every option
    kinds1 = U.CORE_KINDS + ['dequeM', 'structseq', 'customF', 'customN', 'dictU']
    bases = list(U.descriptions(3, kinds1, ['leaf', 'none', 'e_tuple']))
    if quick:
        bases = [d for d in bases if U.n_nodes(d) <= 2] + U.thin([d for d in bases if U.n_nodes(d) == 3], 120, rng)
    else:
        bases = bases + U.thin(list(U.descriptions(4, U.CORE_KINDS, ['leaf', 'none'], min_nodes=4)), 400, rng)
    g1 = []
    for d in bases:
        for f in suffixes(d, SUBS, rng, per_leaf=3 if quick else None):
            g1.append((d, f))
    for d, f in g1:
        for o in (opts6 if U.n_nodes(d) <= 2 or not quick else (o_def, o_nil_ns)):
            go('suffix', d, f, o)
        if f is not d:
            go('converse', f, d, o_def)
        e = equivalents(f)
        if e != f:
            go('suffix_other_dict_kind_order_maxlen', d, e, o_def)
            go('suffix_other_dict_kind_order_maxlen', equivalents(d), f, o_nil_ns)
    for d, f in U.thin(g1, 150 if quick else 1500, rng):
        for o in opts_pred:
            go('suffix_is_leaf', d, f, o)

    # G2 near-misses: one local edit of either side
    g2 = U.thin([p for p in g1 if U.n_nodes(p[1]) <= 5], 60 if quick else 500, rng)
    for d, f in g2:
        for m in U.mutants(f, kinds=U.ALL_KINDS, atoms=['leaf', 'none', 'e_tuple', 'e_dict', 'e_odict']):
            go('near_miss_full', d, m, o_def)
        for m in U.mutants(d, kinds=U.ALL_KINDS, atoms=['leaf', 'none', 'e_tuple', 'e_dict', 'e_odict']):
            go('near_miss_prefix', m, f, o_nil_ns if quick else o_def)

    # G3 unrelated pairs
    small = list(U.descriptions(2, U.MID_KINDS + ['ddictI', 'ntB', 'customE2', 'dequeM9', 'odictZ'], U.ALL_ATOMS))
    if not quick:
        small += U.thin(list(U.descriptions(3, U.CORE_KINDS, ['leaf', 'none'], min_nodes=3)), 150, rng)
    for a in small:
        for b in small:
            go('all_pairs_small', a, b, o_def)

    # G4 nested dicts with different key orders and unequal subtree sizes
    for p, f in nested_dict_pairs(2, rng, 6000 if quick else None):
        go('nested_dict_2keys', p, f, o_def)
    for p, f in nested_dict_pairs(3, rng, 3000 if quick else 60000):
        go('nested_dict_3keys', p, f, o_def)
    for _ in range(2500 if quick else 40000):
        p, f = random_nested(rng, 3)
        go('nested_dict_random_depth3', p, f, o_def if rng.random() < 0.8 else o_nil_ns)

    # G5 heterogeneous / unsortable key sets
    for p, f in hetero_pairs(2, rng, 5000 if quick else None):
        go('hetero_keys', p, f, o_def)
    if not quick:
        for p, f in hetero_pairs(3, rng, 30000):
            go('hetero_keys', p, f, o_def)

    # order laws on whole populations (reference agreement on all ordered pairs, transitivity, antisymmetry)
    pop = list(U.descriptions(2, kinds1 + ['odictF', 'dictF', 'ddictI'], ['leaf', 'none', 'e_tuple']))
    pop += U.thin([f for _, f in g1 if U.n_nodes(f) >= 3], 250 if quick else 900, rng)
    pop += [equivalents(d) for d in pop[-100:]]
    npop = order_laws(pop, o_def, bag)
    nd = [p for pf in nested_dict_pairs(2, rng, 150 if quick else 500) for p in pf]
    npop2 = order_laws(nd, o_def, bag)
    order_laws(U.thin(pop, 150 if quick else 400, rng), o_nil_ns, bag)

    return bag.report(
        rule='distinct = (prefix description, full description, options) triples; a pair is non-trivial when the prefix is not a bare leaf '
             f'(> 95% of the pairs); {stats["pos"]} pairs are prefixes by the reference, {stats["neg"]} are not',
        scope=f'{tier}: ' + ', '.join(f'{k}={v}' for k, v in groups.items()) +
              f'; order laws on all ordered pairs of {npop} + {npop2} treespecs; trees <= {3 if quick else 4} nodes (+ substituted subtrees), '
              f'{len(kinds1)} node kinds, none_is_leaf x namespace x is_leaf',
        exhaustive=False,
        notes='prefix_errors on custom nodes whose entries depend on instance data (assert in ops.py) is outside the quantifier and not exercised',
    )
