"""C15 - a failing user callback fails the operation cleanly (bounded monitor: exhaustive single-fault injection).

For every operation of the public API x scenario tree (callbacks at every node kind: is_leaf predicate, custom flatten
/ unflatten functions, mapped function, node / leaf visitors, key __hash__ / __eq__ / __lt__ / __repr__ / __reduce__,
metadata __eq__ / __hash__ / __repr__) the operation is first run fault-free to count the K callback invocations it
makes; then, for every k = 1..K, the k-th invocation raises a fresh exception object.  Oracle (clauses of the property):
  * that very exception object propagates (identity), nothing is returned;
  * after dropping the exception and gc.collect(): sys.getrefcount of every leaf, container, key, metadata object
    and treespec is what it was before the call; the Python-side registry table and the dict-order mode are unchanged;
  * the same call without a fault then returns what it returned originally (and leaves the reference counts alone).
Malformed custom flatten results (wrong tuple length, non-iterable children, entries length mismatch, entries not
iterable, non-iterable result) and wrong leaf counts must raise RuntimeError / TypeError / ValueError - never
optree.InternalError ("Please file a bug report"), SystemError or a crash.
The enumeration runs in child processes (shards); `LIB` is the complete checking code and is embedded in every replay.
"""
from __future__ import annotations

import json
import time

from ocv.bounded import _util_d as U
from ocv.result import BoundedReport, Finding

LIB = r'''
import sys, gc, os, pickle, json, random, itertools, collections
from collections import OrderedDict, defaultdict, deque, namedtuple
import optree
from ocv.bounded import scope as SC           # only for the shape enumeration (SC.shapes)

gc.disable()          # collections happen only where check_fault asks for them
NS = 'c15_ns'
GLOBAL = optree.registry.__dict__['__GLOBAL_NAMESPACE']

# ------------------------------------------------------------------ fault injector
class Boom(Exception):
    pass

class INJ:
    armed = False; count = 0; target = None; exc = None; record = False; sites = []

def tick(site):
    if not INJ.armed:
        return
    INJ.count += 1
    if INJ.record:
        INJ.sites.append(site)
    if INJ.count == INJ.target:
        raise INJ.exc

def arm(target=None, exc=None, record=False):
    INJ.count = 0; INJ.target = target; INJ.exc = exc; INJ.record = record; INJ.sites = []; INJ.armed = True

def disarm():
    INJ.armed = False; INJ.exc = None

# ------------------------------------------------------------------ user-defined pieces with callbacks
class Leaf:
    __slots__ = ('n',)
    def __init__(self, n): self.n = n
    def __repr__(self): return 'Leaf%d' % self.n

class FK:
    """dict key: every special method is a user callback"""
    def __init__(self, n): self.n = n
    def __hash__(self):
        tick('key.__hash__'); return hash(('FK', self.n))
    def __eq__(self, o):
        tick('key.__eq__'); return type(o) is FK and o.n == self.n
    def __lt__(self, o):
        tick('key.__lt__')
        if type(o) is not FK: return NotImplemented
        return self.n < o.n
    def __repr__(self):
        tick('key.__repr__'); return 'FK(%d)' % self.n
    def __reduce__(self):
        tick('key.__reduce__'); return (FK, (self.n,))

class Meta:
    """metadata of custom nodes"""
    def __init__(self, tag): self.tag = tag
    def __eq__(self, o):
        tick('metadata.__eq__'); return type(o) is Meta and o.tag == self.tag
    def __hash__(self):
        tick('metadata.__hash__'); return hash(('Meta', self.tag))
    def __repr__(self):
        tick('metadata.__repr__'); return 'Meta(%r)' % (self.tag,)
    def __reduce__(self):
        tick('metadata.__reduce__'); return (Meta, (self.tag,))

class CE:
    """custom node with explicit entries, registered in namespace NS"""
    def __init__(self, a, b, meta): self.a, self.b, self.meta = a, b, meta
def ce_flatten(o):
    tick('flatten_func'); return (o.a, o.b), o.meta, ('a', 'b')
def ce_unflatten(meta, ch):
    tick('unflatten_func'); return CE(ch[0], ch[1], meta)

class CG:
    """custom node without entries, children as a list, registered globally"""
    def __init__(self, *ch): self.ch = list(ch)
def cg_flatten(o):
    tick('flatten_func'); return list(o.ch), None
def cg_unflatten(meta, ch):
    tick('unflatten_func'); return CG(*ch)

class CI:
    """custom node whose children are handed out as a tuple and entries as None, metadata with callbacks, NS"""
    def __init__(self, ch, meta): self.ch, self.meta = tuple(ch), meta
def ci_flatten(o):
    tick('flatten_func'); return o.ch, o.meta, None
def ci_unflatten(meta, ch):
    tick('unflatten_func'); return CI(ch, meta)

Pt = namedtuple('Pt', ['x', 'y'])
Tr = namedtuple('Tr', ['a', 'b', 'c'])
One = namedtuple('One', ['only'])
NTS = {1: One, 2: Pt, 3: Tr}

optree.register_pytree_node(CE, ce_flatten, ce_unflatten, namespace=NS)
optree.register_pytree_node(CG, cg_flatten, cg_unflatten, namespace=GLOBAL)
optree.register_pytree_node(CI, ci_flatten, ci_unflatten, namespace=NS)

def pred_never(x):
    tick('is_leaf'); return False
def pred_lists(x):
    tick('is_leaf'); return type(x) is list
PREDS = {'none': None, 'never': pred_never, 'lists': pred_lists}

def func(*xs):
    tick('func'); return xs[0]
def func_path(p, *xs):
    tick('func'); return xs[0]
def func_inner(*xs):
    tick('func'); return {'p': xs[0], 'q': (xs[0],)}
def func_inner_path(p, *xs):
    tick('func'); return {'p': xs[0], 'q': (xs[0],)}
def func2(a, b):
    tick('func'); return a
def keyfn(x):
    tick('func'); return x.n if type(x) is Leaf else 0
def f_node_walk(t, md, ch):
    tick('f_node'); return ch
def f_node_traverse(node):
    tick('f_node'); return node
def f_leaf(x):
    tick('f_leaf'); return x
def f_spec(s):
    tick('f_node'); return s
def f_spec_leaf(s):
    tick('f_leaf'); return s

# ------------------------------------------------------------------ scenario trees (symbolic descriptions)
LEAF, NONE = ('leaf',), ('none',)
FIXED = {
    'mixed': ('dict', [('tuple', [LEAF, ('list', [LEAF, ('CE', [LEAF, ('nt', [LEAF, NONE])])])]),
                       ('deque', [LEAF]),
                       ('odict', [('CG', [LEAF, LEAF]), ('ddict', [LEAF])]),
                       ('structseq', [LEAF, LEAF])]),
    'mixedkeys': ('dict_mixed', [LEAF, LEAF, ('list', [LEAF]), NONE]),
    'customs': ('CE', [('CG', [LEAF, ('CI', [LEAF])]), ('list', [('CE', [LEAF, LEAF])])]),
    'small': ('tuple', [LEAF, NONE, ('dict', [])]),
    'ddict_root': ('ddict', [('odict', [LEAF, LEAF]), LEAF]),
    'leaf': LEAF,
    'none': NONE,
}
GEN_KINDS = {   # kind -> allowed arities (None = any)
    'tuple': None, 'list': None, 'dict': None, 'odict': None, 'ddict': None, 'deque': None, 'nt': (1, 2, 3),
    'CE': (2,), 'CG': None, 'CI': None, 'dict_mixed': (2, 3, 4),
}

def gen_descriptions(max_nodes):
    def assign(shape):
        if shape == ():
            yield LEAF
            yield NONE
            yield ('tuple', [])
            yield ('dict', [])
            return
        opts = [list(assign(s)) for s in shape]
        for kind, ar in GEN_KINDS.items():
            if ar is not None and len(shape) not in ar:
                continue
            for combo in itertools.product(*opts):
                yield (kind, list(combo))
    for n in range(2, max_nodes + 1):
        for sh in SC.shapes(n):
            yield from assign(sh)

def show(d):
    if len(d) == 1: return {'leaf': '*', 'none': 'None'}[d[0]]
    return '%s(%s)' % (d[0], ', '.join(show(c) for c in d[1]))

class Scenario:
    pass

def build_tree(d, st):
    """st: {'leaves': [], 'nodes': [], 'keys': [], 'metas': [], 'n': counter}; FK / Meta objects are fresh per build so
    that a second build is equal but not identical (the engine has to call __eq__)"""
    head = d[0]
    if head == 'leaf':
        x = Leaf(len(st['leaves'])); st['leaves'].append(x); return x
    if head == 'none':
        return None
    ch = [build_tree(c, st) for c in d[1]]
    def key(i):
        k = FK(i); st['keys'].append(k); return k
    def meta(tag):
        m = Meta(tag); st['metas'].append(m); return m
    n = len(ch)
    if head == 'tuple': t = tuple(ch)
    elif head == 'list': t = list(ch)
    elif head == 'dict': t = {key(i): ch[i] for i in reversed(range(n))}
    elif head == 'dict_mixed':
        ks = [key(1), 'a', key(0), 3][:n]
        t = {k: c for k, c in zip(ks, ch)}
    elif head == 'odict': t = OrderedDict((key(n - 1 - i), ch[i]) for i in range(n))
    elif head == 'ddict':
        t = defaultdict(list)
        for i in reversed(range(n)): t[key(i)] = ch[i]
    elif head == 'deque': t = deque(ch, maxlen=n + 2)
    elif head == 'nt': t = NTS[n](*ch)
    elif head == 'structseq': t = os.terminal_size(tuple(ch))
    elif head == 'CE': t = CE(ch[0], ch[1], meta('ce'))
    elif head == 'CG': t = CG(*ch)
    elif head == 'CI': t = CI(ch, meta('ci'))
    else: raise AssertionError(head)
    if n or head not in ('tuple',):      # the empty tuple is a shared singleton: its refcount is not ours
        st['nodes'].append(t)
    return t

def build(descr, nil, pred_name):
    S = Scenario()
    S.descr, S.nil, S.pred_name = descr, nil, pred_name
    S.kw = dict(none_is_leaf=nil, namespace=NS)
    S.pred = PREDS[pred_name]
    st1 = {'leaves': [], 'nodes': [], 'keys': [], 'metas': []}
    st2 = {'leaves': [], 'nodes': [], 'keys': [], 'metas': []}
    S.tree = build_tree(descr, st1)
    S.tree2 = build_tree(descr, st2)
    S.leaves, S.spec = optree.tree_flatten(S.tree, **S.kw)
    S.leaves2, S.spec2 = optree.tree_flatten(S.tree2, **S.kw)
    S.inner_spec = optree.tree_structure({'p': 0, 'q': (0,)}, none_is_leaf=nil)
    S.inner_tree = optree.tree_map(lambda x: {'p': x, 'q': (x,)}, S.tree, **S.kw) if S.leaves else None
    S.spec_leaf = optree.treespec_leaf(none_is_leaf=nil)
    S.customs = [t for t in st1['nodes'] if type(t) in (CE, CG, CI)]
    S.dicts = [t for t in st1['nodes'] if isinstance(t, dict) and len(t)]
    tracked, labels = [], []
    for tag, objs in (('leaf', st1['leaves']), ('node', st1['nodes']), ('key', st1['keys']), ('metadata', st1['metas']),
                      ('leaf2', st2['leaves']), ('node2', st2['nodes']), ('key2', st2['keys']), ('metadata2', st2['metas'])):
        for i, o in enumerate(objs):
            tracked.append(o); labels.append('%s[%d]:%s' % (tag, i, type(o).__name__))
    for name in ('spec', 'spec2', 'inner_spec', 'spec_leaf'):
        tracked.append(getattr(S, name)); labels.append('treespec ' + name)
    if S.inner_tree is not None:
        tracked.append(S.inner_tree); labels.append('inner_tree')
    S.tracked, S.labels = tracked, labels
    return S

# ------------------------------------------------------------------ operations
def _first(S, xs): return xs[0] if xs else None

def ops_table():
    T = []
    def op(name, fn, needs=None): T.append((name, fn, needs))
    P = lambda S: S.pred
    op('tree_flatten', lambda S: optree.tree_flatten(S.tree, P(S), **S.kw))
    op('tree_flatten_with_path', lambda S: optree.tree_flatten_with_path(S.tree, P(S), **S.kw))
    op('tree_flatten_with_accessor', lambda S: optree.tree_flatten_with_accessor(S.tree, P(S), **S.kw))
    op('tree_iter', lambda S: list(optree.tree_iter(S.tree, P(S), **S.kw)))
    op('tree_leaves', lambda S: optree.tree_leaves(S.tree, P(S), **S.kw))
    op('tree_structure', lambda S: optree.tree_structure(S.tree, P(S), **S.kw))
    op('tree_paths', lambda S: optree.tree_paths(S.tree, P(S), **S.kw))
    op('tree_accessors', lambda S: optree.tree_accessors(S.tree, P(S), **S.kw))
    op('tree_is_leaf', lambda S: optree.tree_is_leaf(S.tree, P(S), **S.kw))
    op('all_leaves', lambda S: optree.all_leaves([S.tree] + S.leaves, P(S), **S.kw))
    op('tree_unflatten', lambda S: optree.tree_unflatten(S.spec, S.leaves))
    op('tree_unflatten(iterator)', lambda S: optree.tree_unflatten(S.spec, (func(x) for x in S.leaves)))
    op('tree_map', lambda S: optree.tree_map(func, S.tree, S.tree2, is_leaf=P(S), **S.kw))
    op('tree_map_', lambda S: optree.tree_map_(func, S.tree, S.tree2, is_leaf=P(S), **S.kw))
    op('tree_map_with_path', lambda S: optree.tree_map_with_path(func_path, S.tree, S.tree2, is_leaf=P(S), **S.kw))
    op('tree_map_with_path_', lambda S: optree.tree_map_with_path_(func_path, S.tree, S.tree2, is_leaf=P(S), **S.kw))
    op('tree_map_with_accessor', lambda S: optree.tree_map_with_accessor(func_path, S.tree, S.tree2, is_leaf=P(S), **S.kw))
    op('tree_map_with_accessor_', lambda S: optree.tree_map_with_accessor_(func_path, S.tree, S.tree2, is_leaf=P(S), **S.kw))
    op('tree_replace_nones', lambda S: optree.tree_replace_nones(0, S.tree, namespace=NS))
    op('tree_transpose', lambda S: optree.tree_transpose(S.spec, S.inner_spec, S.inner_tree), 'leaves')
    op('tree_transpose_map', lambda S: optree.tree_transpose_map(func_inner, S.tree, S.tree2, is_leaf=P(S), **S.kw), 'leaves_pred')
    op('tree_transpose_map(inner_treespec)', lambda S: optree.tree_transpose_map(func_inner, S.tree, inner_treespec=S.inner_spec, is_leaf=P(S), **S.kw), 'leaves_pred')
    op('tree_transpose_map_with_path', lambda S: optree.tree_transpose_map_with_path(func_inner_path, S.tree, S.tree2, is_leaf=P(S), **S.kw), 'leaves_pred')
    op('tree_transpose_map_with_accessor', lambda S: optree.tree_transpose_map_with_accessor(func_inner_path, S.tree, is_leaf=P(S), **S.kw), 'leaves_pred')
    op('tree_broadcast_prefix', lambda S: optree.tree_broadcast_prefix(S.tree, S.tree2, is_leaf=P(S), **S.kw))
    op('broadcast_prefix', lambda S: optree.broadcast_prefix(S.tree, S.tree2, is_leaf=P(S), **S.kw))
    op('tree_broadcast_common', lambda S: optree.tree_broadcast_common(S.tree, S.tree2, is_leaf=P(S), **S.kw))
    op('broadcast_common', lambda S: optree.broadcast_common(S.tree, S.tree2, is_leaf=P(S), **S.kw))
    op('tree_broadcast_map', lambda S: optree.tree_broadcast_map(func, S.tree, S.tree2, is_leaf=P(S), **S.kw))
    op('tree_broadcast_map_with_path', lambda S: optree.tree_broadcast_map_with_path(func_path, S.tree, S.tree2, is_leaf=P(S), **S.kw))
    op('tree_broadcast_map_with_accessor', lambda S: optree.tree_broadcast_map_with_accessor(func_path, S.tree, S.tree2, is_leaf=P(S), **S.kw))
    op('tree_reduce', lambda S: optree.tree_reduce(func2, S.tree, 0, is_leaf=P(S), **S.kw))
    op('tree_max(key)', lambda S: optree.tree_max(S.tree, default=None, key=keyfn, is_leaf=P(S), **S.kw))
    op('tree_min(key)', lambda S: optree.tree_min(S.tree, default=None, key=keyfn, is_leaf=P(S), **S.kw))
    op('tree_all', lambda S: optree.tree_all(S.tree, is_leaf=P(S), **S.kw))
    op('tree_any', lambda S: optree.tree_any(S.tree, is_leaf=P(S), **S.kw))
    op('tree_flatten_one_level(root)', lambda S: tuple(optree.tree_flatten_one_level(S.tree, P(S), **S.kw)), 'root_node')
    op('tree_flatten_one_level(custom)', lambda S: tuple(optree.tree_flatten_one_level(S.customs[0], P(S), **S.kw)), 'custom')
    op('prefix_errors', lambda S: [e('x') .args for e in optree.prefix_errors(S.tree, S.tree2, is_leaf=P(S), **S.kw)])
    op('prefix_errors(mismatch)', lambda S: [type(e('x')) for e in optree.prefix_errors(S.tree, (S.tree2,), is_leaf=P(S), **S.kw)])
    op('treespec.flatten_up_to', lambda S: S.spec.flatten_up_to(S.tree2))
    op('treespec.walk', lambda S: S.spec.walk(S.leaves, f_node_walk, f_leaf))
    op('treespec.traverse', lambda S: S.spec.traverse(S.leaves, f_node_traverse, f_leaf))
    op('treespec.walk(iterator)', lambda S: S.spec.walk((func(x) for x in S.leaves), None, f_leaf))
    op('treespec_transform', lambda S: optree.treespec_transform(S.spec, f_spec, f_spec_leaf))
    op('treespec ==', lambda S: (S.spec == S.spec2, S.spec != S.spec2))
    op('treespec <=', lambda S: (S.spec <= S.spec2, S.spec < S.spec2, S.spec >= S.spec2))
    op('hash(treespec)', lambda S: hash(S.spec))
    op('repr(treespec)', lambda S: (repr(S.spec), str(S.spec2)))
    op('treespec.is_prefix', lambda S: (S.spec.is_prefix(S.spec2), S.spec.is_suffix(S.spec2, strict=True)))
    op('treespec.broadcast_to_common_suffix', lambda S: S.spec.broadcast_to_common_suffix(S.spec2))
    op('treespec.compose', lambda S: S.spec.compose(S.spec2))
    op('treespec.paths/accessors/entries', lambda S: (S.spec.paths(), S.spec.accessors(), S.spec.entries(), S.spec.children(), S.spec.one_level()))
    op('pickle.dumps(treespec)', lambda S: len(pickle.dumps(S.spec)) > 0)
    op('pickle round trip', lambda S: pickle.loads(pickle.dumps(S.spec)))
    op('treespec_dict', lambda S: optree.treespec_dict({k: S.spec_leaf for k in S.dicts[0]}, none_is_leaf=S.nil), 'dict')
    op('treespec_ordereddict', lambda S: optree.treespec_ordereddict([(k, S.spec_leaf) for k in S.dicts[0]], none_is_leaf=S.nil), 'dict')
    op('treespec_defaultdict', lambda S: optree.treespec_defaultdict(list, {k: S.spec_leaf for k in S.dicts[0]}, none_is_leaf=S.nil), 'dict')
    op('treespec_from_collection(custom)', lambda S: optree.treespec_from_collection(CE(S.spec_leaf, S.spec, S.tracked_meta), **S.kw))
    op('treespec_from_collection(dict)', lambda S: optree.treespec_from_collection({k: S.spec for k in S.dicts[0]}, **S.kw), 'dict')
    op('treespec_tuple/list/deque/namedtuple', lambda S: (optree.treespec_tuple([S.spec, S.spec_leaf], none_is_leaf=S.nil),
                                                         optree.treespec_list((s for s in [S.spec]), none_is_leaf=S.nil),
                                                         optree.treespec_deque([S.spec], maxlen=3, none_is_leaf=S.nil),
                                                         optree.treespec_namedtuple(Pt(S.spec, S.spec_leaf), none_is_leaf=S.nil)))
    return T

OPS = ops_table()

def applicable(S, needs):
    if needs is None: return True
    if needs == 'leaves': return bool(S.leaves)
    if needs == 'leaves_pred': return bool(S.leaves)
    if needs == 'custom': return bool(S.customs)
    if needs == 'dict': return bool(S.dicts)
    if needs == 'root_node':      # the root must be a node under these options
        return type(S.tree) is not Leaf and not (S.tree is None and S.nil) and not (S.pred_name == 'lists' and type(S.tree) is list)
    return True

# ------------------------------------------------------------------ canonical form of results
def canon(x, depth=0):
    t = type(x)
    if x is None or t in (bool, int, float, str, bytes): return x
    if t is Leaf: return ('Leaf', x.n)
    if t is FK: return ('FK', x.n)
    if t is Meta: return ('Meta', x.tag)
    if t is optree.PyTreeSpec: return ('spec', canon(x.__getstate__(), depth + 1))
    if t is optree.PyTreeAccessor: return ('accessor', tuple((type(e).__name__, canon(e.entry), e.type.__name__, int(e.kind)) for e in x))
    if isinstance(x, optree.PyTreeEntry): return ('entry', type(x).__name__, canon(x.entry))
    if t is CE: return ('CE', canon(x.a), canon(x.b), canon(x.meta))
    if t is CG: return ('CG', [canon(c) for c in x.ch])
    if t is CI: return ('CI', [canon(c) for c in x.ch], canon(x.meta))
    if t is deque: return ('deque', x.maxlen, [canon(c) for c in x])
    if t is defaultdict: return ('defaultdict', getattr(x.default_factory, '__name__', None), [(canon(k), canon(v)) for k, v in x.items()])
    if t is OrderedDict: return ('OrderedDict', [(canon(k), canon(v)) for k, v in x.items()])
    if t is dict: return ('dict', [(canon(k), canon(v)) for k, v in x.items()])
    if t is list: return ('list', [canon(c) for c in x])
    if isinstance(x, tuple): return (t.__name__, [canon(c) for c in x])
    if isinstance(x, type): return ('type', x.__name__)
    if isinstance(x, BaseException): return ('exc', t.__name__, str(x))
    if callable(x): return ('callable', getattr(x, '__qualname__', repr(t)))
    return ('object', t.__name__)

def registry_snapshot():
    reg = optree.registry._NODETYPE_REGISTRY
    modes = tuple(optree._C.is_dict_insertion_ordered(ns, inh) for ns in ('', NS) for inh in (False, True))
    return ([(k, id(v)) for k, v in reg.items()], modes)

def refcounts(S):
    return [sys.getrefcount(o) for o in S.tracked]

# ------------------------------------------------------------------ control: what CPython itself does
def _cpython_odict_masks_key_errors():
    """Plain Python, no optree: does iterating OrderedDict.items() replace an exception raised by a key's __hash__ with KeyError(key)?
    (CPython's odict iterator looks every key up again and turns a failed lookup into KeyError.)"""
    od = OrderedDict((FK(i), i) for i in range(3))
    for target in range(1, 13):          # the iterator hashes every key more than once; one of the lookups swallows errors
        exc = Boom('control')
        arm(target=target, exc=exc)
        try:
            list(od.items())
            got = None
        except BaseException as e:
            got = e
        disarm()
        if got is not None and got is not exc and type(got) is KeyError and len(got.args) == 1 and type(got.args[0]) is FK:
            return True
    return False
CPYTHON_ODICT_MASKS = _cpython_odict_masks_key_errors()
ATTRIBUTED_TO_CPYTHON = [0]

def has_kind(d, kind):
    return len(d) > 1 and (d[0] == kind or any(has_kind(c, kind) for c in d[1]))

# ------------------------------------------------------------------ one fault
RUNS = [0]
MARK_FD = [None]          # the worker keeps "(operation, k)" of the running evaluation in a small file: read by the parent after a crash
def mark(text):
    if MARK_FD[0] is not None:
        os.pwrite(MARK_FD[0], (text + ' ' * 200)[:200].encode(), 0)

def check_fault(S, op_name, opfn, k, base_c, site='', careful=False):
    """-> list of (key, message).  The automatic collector is disabled in this process; the fast path does not collect at all
    (nothing here builds reference cycles that survive dropping the exception); whenever a reference count differs the whole
    evaluation is repeated with gc.collect() before every snapshot, and only that verdict counts."""
    out = []
    RUNS[0] += 1
    if careful or RUNS[0] % 500 == 0:
        gc.collect()
    before = refcounts(S)
    reg_before = registry_snapshot()
    exc = Boom('fault %d' % k)
    returned = False
    caught = None
    arm(target=k, exc=exc)
    try:
        r = opfn(S)
        returned = True
    except BaseException as e:
        caught = e
    disarm()
    if returned:
        out.append(('C15.fault_swallowed', 'returned %s although callback invocation #%d raised' % (str(canon(r))[:150], k)))
    elif (caught is not exc and CPYTHON_ODICT_MASKS and type(caught) is KeyError and len(caught.args) == 1 and type(caught.args[0]) is FK
          and site in ('key.__hash__', 'key.__eq__') and has_kind(S.descr, 'odict')):
        # the control shows that CPython's own OrderedDict iteration replaces the exception of a key callback by KeyError(key)
        ATTRIBUTED_TO_CPYTHON[0] += 1
    elif caught is not exc:
        chain = caught.__cause__ is exc or caught.__context__ is exc
        out.append(('C15.exception_identity', 'raised %s: %s instead of the injected exception object%s'
                    % (type(caught).__name__, str(caught)[:150], ' (which is only its __cause__/__context__)' if chain else '')))
    r = None; caught = None; exc = None
    if careful:
        gc.collect()
    after = refcounts(S)
    if after != before:
        if not careful:
            return check_fault(S, op_name, opfn, k, base_c, site, careful=True)
        diff = ['%s %+d' % (S.labels[i], after[i] - before[i]) for i in range(len(before)) if after[i] != before[i]]
        out.append(('C15.refcount_changed', 'reference counts after the failed call differ: ' + ', '.join(diff[:8])))
    if registry_snapshot() != reg_before:
        out.append(('C15.registry_or_mode_changed', 'the registry table or the dict-order mode changed'))
    # a subsequent fault-free call behaves as if the failed call never happened
    arm()
    try:
        r = opfn(S)
        c2 = canon(r)
        if c2 != base_c:
            out.append(('C15.subsequent_call_differs', 'the same call afterwards returned %s, originally %s' % (str(c2)[:200], str(base_c)[:200])))
    except BaseException as e:
        out.append(('C15.subsequent_call_differs', 'the same call afterwards raised %s: %s' % (type(e).__name__, str(e)[:200])))
        e = None
    disarm()
    r = None; c2 = None
    if careful:
        gc.collect()
    after2 = refcounts(S)
    if after2 != before and after2 != after:
        if not careful:
            return check_fault(S, op_name, opfn, k, base_c, site, careful=True)
        diff = ['%s %+d' % (S.labels[i], after2[i] - before[i]) for i in range(len(before)) if after2[i] != before[i]]
        out.append(('C15.refcount_changed', 'reference counts after the following fault-free call differ: ' + ', '.join(diff[:8])))
    return out

def run_scenario(descr, nil, pred_name, only_op=None, only_k=None):
    """-> (evaluations, findings [(key, what, replay-args)], info)"""
    S = build(descr, nil, pred_name)
    S.tracked_meta = Meta('ctor'); S.tracked.append(S.tracked_meta); S.labels.append('metadata ctor')
    where = '%s none_is_leaf=%s is_leaf=%s' % (show(descr), nil, pred_name)
    evals, finds, ks = 0, [], {}
    for op_name, opfn, needs in OPS:
        if only_op is not None and op_name != only_op: continue
        if not applicable(S, needs): continue
        arm(record=True)
        try:
            base = opfn(S)
        except BaseException as e:
            disarm()
            finds.append(('C15.unexpected_exception', '%s on %s: the fault-free call raised %s: %s' % (op_name, where, type(e).__name__, str(e)[:200]),
                          (descr, nil, pred_name, op_name, 0)))
            continue
        disarm()
        K, sites = INJ.count, list(INJ.sites)
        base_c = canon(base); base = None
        ks[op_name] = K
        for k in range(1, K + 1):
            if only_k is not None and k != only_k: continue
            evals += 1
            mark(json.dumps([op_name, k, K, sites[k - 1]]))
            for key, msg in check_fault(S, op_name, opfn, k, base_c, sites[k - 1]):
                finds.append((key, '%s on %s, fault at callback invocation %d of %d (%s): %s' % (op_name, where, k, K, sites[k - 1], msg),
                              (descr, nil, pred_name, op_name, k)))
    return evals, finds, ks

# ------------------------------------------------------------------ malformed custom flatten results / wrong leaf counts
class Bad:
    def __init__(self, *ch): self.ch = list(ch)
BAD_MODE = ['good']
def bad_flatten(o):
    m = BAD_MODE[0]
    ch, md, en = list(o.ch), 'md', tuple('e%d' % i for i in range(len(o.ch)))
    return {
        'good': lambda: (ch, md, en),
        'tuple_len_0': lambda: (), 'tuple_len_1': lambda: (ch,), 'tuple_len_4': lambda: (ch, md, en, None),
        'tuple_len_5': lambda: (ch, md, en, None, None),
        'result_none': lambda: None, 'result_int': lambda: 5, 'result_object': lambda: object(),
        'children_none': lambda: (None, md, None), 'children_int': lambda: (5, md), 'children_object': lambda: (object(), md, None),
        'entries_short': lambda: (ch, md, en[:-1]), 'entries_long': lambda: (ch, md, en + ('x',)), 'entries_empty': lambda: (ch, md, ()),
        'entries_int': lambda: (ch, md, 5), 'entries_object': lambda: (ch, md, object()),
    }[m]()
optree.register_pytree_node(Bad, bad_flatten, lambda md, ch: Bad(*ch), namespace=NS)
BAD_MODES = ['tuple_len_0', 'tuple_len_1', 'tuple_len_4', 'tuple_len_5', 'result_none', 'result_int', 'result_object',
             'children_none', 'children_int', 'children_object', 'entries_short', 'entries_long', 'entries_empty',
             'entries_int', 'entries_object']

def bad_ops():
    kw = dict(namespace=NS)
    return [
        ('tree_flatten', lambda T: optree.tree_flatten(T.tree, **kw)),
        ('tree_flatten(is_leaf)', lambda T: optree.tree_flatten(T.tree, lambda x: False, **kw)),
        ('tree_flatten_with_path', lambda T: optree.tree_flatten_with_path(T.tree, **kw)),
        ('tree_flatten_with_accessor', lambda T: optree.tree_flatten_with_accessor(T.tree, **kw)),
        ('tree_iter', lambda T: list(optree.tree_iter(T.tree, **kw))),
        ('tree_leaves', lambda T: optree.tree_leaves(T.tree, **kw)),
        ('tree_structure', lambda T: optree.tree_structure(T.tree, none_is_leaf=True, **kw)),
        ('tree_paths', lambda T: optree.tree_paths(T.tree, **kw)),
        ('tree_map', lambda T: optree.tree_map(lambda x: x, T.tree, **kw)),
        ('tree_map(rest)', lambda T: optree.tree_map(lambda x, y: x, T.good_tree, T.tree, **kw)),
        ('treespec.flatten_up_to', lambda T: T.good_spec.flatten_up_to(T.tree)),
        ('tree_broadcast_prefix', lambda T: optree.tree_broadcast_prefix(T.good_tree, T.tree, **kw)),
        ('tree_broadcast_common', lambda T: optree.tree_broadcast_common(T.tree, T.tree, **kw)),
        ('prefix_errors', lambda T: optree.prefix_errors(T.good_tree, T.tree, **kw)),
        ('tree_flatten_one_level', lambda T: optree.tree_flatten_one_level(T.bad, **kw)),
        ('treespec_from_collection', lambda T: optree.treespec_from_collection(T.bad_of_specs, **kw)),
        ('tree_transpose_map', lambda T: optree.tree_transpose_map(lambda x: (x, x), T.tree, **kw)),
        ('tree_reduce', lambda T: optree.tree_reduce(lambda a, b: a, T.tree, 0, **kw)),
        ('tree_all', lambda T: optree.tree_all(T.tree, **kw)),
    ]

class BadScenario:
    def __init__(self, shape):
        self.leaves = [Leaf(i) for i in range(4)]
        L = self.leaves
        if shape == 'root':
            self.bad = Bad(L[0], L[1]); self.tree = self.bad
            mk = lambda b: b
        elif shape == 'nested':
            self.bad = Bad(L[0], (L[1], L[2])); self.tree = {'a': [L[3], self.bad], 'b': None}
            mk = lambda b: {'a': [Leaf(9), b], 'b': None}
        else:
            self.bad = Bad(); self.tree = (self.bad, L[0])
            mk = lambda b: (b, Leaf(9))
        self.good_twin = Bad(*[Leaf(10 + i) if not isinstance(c, tuple) else (Leaf(20), Leaf(21)) for i, c in enumerate(self.bad.ch)])
        self.good_tree = mk(self.good_twin)
        BAD_MODE[0] = 'good'
        self.good_spec = optree.tree_structure(self.good_tree, namespace=NS)
        leaf = optree.treespec_leaf()
        self.bad_of_specs = Bad(*[leaf for _ in self.bad.ch])
        self.tracked = self.leaves + [self.bad, self.tree, self.good_spec, self.good_tree]

def run_malformed(only=None):
    evals, finds = 0, []
    for shape in ('root', 'nested', 'childless'):
        T = BadScenario(shape)
        for mode in BAD_MODES:
            if shape == 'childless' and mode in ('entries_short',):
                continue            # no entry to drop
            for op_name, fn in bad_ops():
                if only is not None and only != (shape, mode, op_name): continue
                if shape == 'childless' and mode == 'entries_empty':
                    continue        # () is the right entries tuple for no children
                evals += 1
                gc.collect()
                before = [sys.getrefcount(o) for o in T.tracked]
                BAD_MODE[0] = mode
                res = exc = None
                try:
                    res = fn(T)
                except BaseException as e:
                    exc = e
                BAD_MODE[0] = 'good'
                where = '%s with a custom node (%s) whose flatten function returns %s' % (op_name, shape, mode)
                arg = ('malformed', shape, mode, op_name)
                if exc is None:
                    finds.append(('C15.malformed_flatten_result_accepted', '%s: returned %s instead of raising' % (where, str(canon(res))[:150]), arg))
                else:
                    name, text = type(exc).__name__, str(exc)
                    if name == 'InternalError' or 'bug report' in text or isinstance(exc, SystemError):
                        finds.append(('C15.malformed_flatten_result_internal_error', '%s: %s: %s' % (where, name, text[:200]), arg))
                    elif not isinstance(exc, (RuntimeError, TypeError, ValueError)):
                        finds.append(('C15.malformed_flatten_result_undocumented_exception', '%s: %s: %s' % (where, name, text[:200]), arg))
                res = exc = None
                gc.collect()
                after = [sys.getrefcount(o) for o in T.tracked]
                if after != before:
                    finds.append(('C15.refcount_changed', '%s: reference counts changed %r -> %r' % (where, before, after), arg))
    return evals, finds

def run_leafcounts(only=None):
    evals, finds = 0, []
    for name, descr in FIXED.items():
        for nil in (False, True):
            S = build(descr, nil, 'none')
            n = len(S.leaves)
            other = (S.tree2, S.tree2)            # a tree of another structure
            calls = []
            for delta in (-1, 1, 3):
                if n + delta < 0: continue
                lv = (S.leaves + [Leaf(100 + i) for i in range(3)])[:n + delta]
                calls += [('tree_unflatten with %d leaves for %d' % (len(lv), n), lambda lv=lv: optree.tree_unflatten(S.spec, lv)),
                          ('treespec.unflatten(iterator) with %d leaves for %d' % (len(lv), n), lambda lv=lv: S.spec.unflatten(iter(lv))),
                          ('treespec.walk with %d leaves for %d' % (len(lv), n), lambda lv=lv: S.spec.walk(lv, lambda t, m, c: c, None)),
                          ('treespec.traverse with %d leaves for %d' % (len(lv), n), lambda lv=lv: S.spec.traverse(lv, None, lambda x: x))]
            calls += [('tree_map with a rest tree of another structure', lambda: optree.tree_map(lambda a, b: a, S.tree, other, **S.kw)),
                      ('treespec.flatten_up_to a tree of another structure', lambda: S.spec.flatten_up_to(other))]
            for cname, fn in calls:
                if only is not None and only != (name, nil, cname): continue
                if 'another structure' in cname and type(S.tree) is Leaf: continue      # a leaf is a prefix of everything
                if 'another structure' in cname and S.tree is None and nil: continue
                evals += 1
                gc.collect()
                before = refcounts(S)
                res = exc = None
                try: res = fn()
                except BaseException as e: exc = e
                where = '%s on %s (none_is_leaf=%s)' % (cname, show(descr), nil)
                arg = ('leafcount', name, nil, cname)
                if exc is None:
                    finds.append(('C15.wrong_leaf_count_accepted', '%s: returned %s instead of raising ValueError' % (where, str(canon(res))[:150]), arg))
                elif type(exc) is not ValueError:
                    finds.append(('C15.wrong_leaf_count_other_exception', '%s: raised %s: %s instead of ValueError' % (where, type(exc).__name__, str(exc)[:200]), arg))
                res = exc = None
                gc.collect()
                after = refcounts(S)
                if after != before:
                    diff = ['%s %+d' % (S.labels[i], after[i] - before[i]) for i in range(len(before)) if after[i] != before[i]]
                    finds.append(('C15.refcount_changed', '%s: reference counts changed: %s' % (where, ', '.join(diff[:8])), arg))
    return evals, finds

def units(tier, seed):
    """work units, deterministic: ('scenario', descr, nil, pred) | ('malformed',) | ('leafcounts',)"""
    us = [('malformed',), ('leafcounts',)]
    for name, d in FIXED.items():
        for nil in (False, True):
            for pred in ('none', 'never', 'lists'):
                us.append(('scenario', d, nil, pred))
    rng = random.Random(seed)
    preds = ['none', 'never', 'lists']
    small = list(gen_descriptions(3))
    if tier == 'quick':
        # every generated tree with <= 3 nodes, one seeded (none_is_leaf, is_leaf) choice each
        for d in small:
            us.append(('scenario', d, rng.random() < 0.3, rng.choice(preds)))
    else:
        for d in small:
            for nil in (False, True):
                for pred in preds:
                    us.append(('scenario', d, nil, pred))
        small_set = set(map(repr, small))
        big = [d for d in gen_descriptions(4) if repr(d) not in small_set]
        rng.shuffle(big)
        for d in big[:6000]:
            us.append(('scenario', d, rng.random() < 0.3, rng.choice(preds)))
    return us

def run_unit(u):
    if u[0] == 'malformed': return run_malformed()
    if u[0] == 'leafcounts': return run_leafcounts()
    ev, fi, ks = run_scenario(u[1], u[2], u[3])
    return ev, fi
'''

_WORKER = LIB + r'''
tier, seed, shard, nshards, start_at, markfile = sys.argv[1], int(sys.argv[2]), int(sys.argv[3]), int(sys.argv[4]), int(sys.argv[5]), sys.argv[6]
MARK_FD[0] = os.open(markfile, os.O_RDWR | os.O_CREAT, 0o600)
us = units(tier, seed)
order = sorted(range(len(us)), key=lambda i: (-len(json.dumps(us[i])), i))      # big scenarios first, dealt round-robin
mine = [us[i] for j, i in enumerate(order) if j % nshards == shard]
print('UNITS: %d %d' % (len(mine), len(us)), flush=True)
for idx, u in enumerate(mine):
    if idx < start_at:
        continue
    print('@@UNIT %d %s' % (idx, json.dumps(u)), flush=True)
    mark(json.dumps(['(building the scenario)', 0, 0, '']))
    ev, fi = run_unit(u)
    print('UNIT-RESULT: ' + json.dumps({'idx': idx, 'evaluations': ev, 'findings': [[k, w, a] for k, w, a in fi],
                                        'cpython': ATTRIBUTED_TO_CPYTHON[0]}), flush=True)
    ATTRIBUTED_TO_CPYTHON[0] = 0
print('@@DONE', flush=True)
'''

_REPLAY_TAIL = r'''
ARG = %r
if ARG[0] == 'malformed':
    ev, fi = run_malformed(only=tuple(ARG[1:]) or None)
elif ARG[0] == 'leafcount':
    ev, fi = run_leafcounts(only=tuple(ARG[1:]) or None)
else:
    def tup(d): return tuple(tup(x) if isinstance(x, list) and x and isinstance(x[0], str) else ([tup(y) for y in x] if isinstance(x, list) else x) for x in d)
    descr, nil, pred, op_name, k = ARG
    ev, fi, _ = run_scenario(tup(descr), nil, pred, only_op=op_name, only_k=(k or None))
for key, what, arg in fi:
    print('VIOLATION: ' + key + ': ' + what)
sys.exit(1 if fi else 0)
'''


def _replay(arg) -> str:
    return LIB + (_REPLAY_TAIL % (arg,))


def run(tier: str, seed: int) -> BoundedReport:
    t0 = time.time()
    rep = BoundedReport(name='c15_faults')
    sink = U.FindingSink(per_key=5)
    nshards = 8
    timeout = 300.0 if tier == 'quick' else 1700.0
    import os
    import tempfile

    def run_shard(i):
        """run shard i to completion, restarting behind a unit that kills the worker"""
        fd, markfile = tempfile.mkstemp(prefix=f'c15-shard{i}-')
        os.close(fd)
        infos, crashes, start_at, mine_total, all_total = [], [], 0, 0, 0
        try:
            for _attempt in range(60):
                r = U.run_child(_WORKER, timeout=timeout, args=(tier, seed, i, nshards, start_at, markfile))
                cur = None
                for line in r.out.splitlines():
                    if line.startswith('UNITS: '):
                        mine_total, all_total = map(int, line[7:].split())
                    elif line.startswith('@@UNIT '):
                        idx, unit = line[7:].split(' ', 1)
                        cur = (int(idx), unit)
                    elif line.startswith('UNIT-RESULT: '):
                        infos.append(json.loads(line[13:]))
                        cur = None
                if '@@DONE' in r.out and not r.crashed and not r.timed_out:
                    break
                try:
                    with open(markfile, 'rb') as f:
                        marker = f.read().decode('utf-8', 'replace').strip()
                except OSError:
                    marker = ''
                crashes.append((cur, marker, r))
                if cur is None:
                    break
                start_at = cur[0] + 1
        finally:
            try:
                os.unlink(markfile)
            except OSError:
                pass
        return i, infos, crashes, mine_total, all_total

    results = U.pmap(run_shard, range(nshards), workers=nshards)
    evals = units_done = all_units = cpython = 0
    allf = []
    crash_findings = []
    for i, infos, crashes, mine_total, all_total in results:
        all_units = max(all_units, all_total)
        for info in infos:
            evals += info['evaluations']
            units_done += 1
            allf += info['findings']
            cpython += info.get('cpython', 0)
        for cur, marker, r in crashes:
            key = 'C15.crash' if r.crashed else ('C15.hang' if r.timed_out else 'C15.unexpected_exception')
            evals += 1
            if cur is None:
                crash_findings.append((10 ** 9, Finding(key=key, what=f'worker shard {i} ended with {r.signame()} outside any unit: {U.short(r.err[-400:], 400)}',
                                                        script=_WORKER, data={'shard': i})))
                continue
            unit = json.loads(cur[1])
            try:
                op_name, k, K, site = json.loads(marker)
            except ValueError:
                op_name, k, K, site = '?', 0, 0, ''
            if unit[0] == 'scenario':
                arg = [unit[1], unit[2], unit[3], op_name, k]
                what = (f'{op_name} on {U.short(json.dumps(unit[1]), 300)} none_is_leaf={unit[2]} is_leaf={unit[3]}, fault at callback invocation '
                        f'{k} of {K} ({site}): the process died with {r.signame()}')
            else:
                arg = [unit[0]]
                what = f'unit {unit[0]}: the process died with {r.signame()}'
            crash_findings.append((len(cur[1]), Finding(key=key, what=what, script=_replay(arg), data={'replay': arg, 'shard': i})))
    for _, f in sorted(crash_findings, key=lambda x: x[0]):
        sink.add(f)
    # smallest inputs first: order findings by the size of the scenario description, then by k
    allf.sort(key=lambda f: (len(json.dumps(f[2])), json.dumps(f[2])))
    for key, what, arg in allf:
        sink.add(Finding(key=key, what=U.short(what, 700), script=_replay(arg), data={'replay': arg}))
    rep.evaluations = evals
    rep.distinct_nontrivial = evals
    rep.rule = ('one evaluation = one (operation, scenario tree, options, fault index k) run, or one (operation, malformed flatten result) / '
                '(operation, wrong leaf count) run; all are distinct; an operation contributes only if it makes at least one callback '
                'invocation on that scenario (K >= 1), so every evaluation is non-trivial')
    rep.scope = (f'{units_done} of {all_units} work units: 7 fixed scenario trees (every node kind, keys and metadata with callbacks, mixed-type keys '
                 'for the sort fallback, nested custom nodes) x none_is_leaf x is_leaf in {None, never, lists-are-leaves} x 62 operations x every '
                 'fault index k = 1..K'
                 + ('; plus every generated tree with <= 3 nodes over 11 kinds with one seeded (none_is_leaf, is_leaf) choice' if tier == 'quick' else
                    '; plus every generated tree with <= 3 nodes over 11 kinds x none_is_leaf x is_leaf and 6000 seeded trees with 4 nodes')
                 + '; malformed flatten results: 15 kinds x 3 placements x 19 operations; wrong leaf counts: 7 trees x none_is_leaf x 14 calls')
    rep.exhaustive = True
    rep.samples = [U.short(f[1], 200) for f in allf[:3]] or [
        'tree_map on dict(tuple(*, list(*, CE(*, nt(*, None)))), deque(*), odict(CG(*, *), ddict(*)), structseq(*, *)): every k of K',
        'hash(treespec) with a metadata.__hash__ fault', 'tree_flatten with a flatten function returning a 4-tuple']
    rep.findings = sink.findings()
    rep.notes = ('exhaustive over k for each enumerated (operation, scenario); key __lt__ faults raise a custom exception class (TypeError '
                 'is the documented signal for incomparable keys and is not injected); callbacks reached only through Python containers '
                 'outside the engine (e.g. pickling of keys) are included because the property speaks of "any optree operation"; '
                 '"no partial result" is checked as "nothing is returned"; path_entry_type constructors and unflatten functions of the '
                 'built-in kinds are not user-supplied and are not faulted. '
                 + (f'{cpython} fault runs surfaced as KeyError(key) instead of the injected exception for a key __hash__/__eq__ fault in a tree '
                    'with an OrderedDict: the control (plain Python, no optree: list(OrderedDict.items()) with the same key class) shows that '
                    'CPython\'s OrderedDict iterator itself replaces the exception; attributed to CPython, not findings. ' if cpython else '')
                 + 'finding counts: ' + (sink.summary() or 'none'))
    rep.wall_s = round(time.time() - t0, 2)
    return rep
