"""Shared driver of the targeted bounded monitors (cNN_extra): the evaluator text CORE is both executed by the monitor and
embedded verbatim in every replay script, so a replay runs exactly the check that failed.

CORE must define   cases(tier) -> iterable of picklable specs,   check(spec) -> list of (clause key, description)
and may define     nontrivial(spec) -> bool."""
from __future__ import annotations

from ocv.result import BoundedReport, Finding


def run_core(name: str, core: str, tier: str, scope: str, rule: str, exhaustive=True, per_key=4) -> BoundedReport:
    ns: dict = {}
    exec(compile(core, f'<{name}:CORE>', 'exec'), ns)   # noqa: S102
    rep = BoundedReport(name=name, exhaustive=exhaustive, scope=scope, rule=rule)
    found: dict[str, list] = {}
    samples = []
    for spec in ns['cases'](tier):
        rep.evaluations += 1
        if ns.get('nontrivial', lambda s: True)(spec):
            rep.distinct_nontrivial += 1
        if len(samples) < 4:
            samples.append(repr(spec)[:200])
        try:
            bad = ns['check'](spec)
        except Exception as e:  # noqa: BLE001
            bad = [(f'{name.split("_")[0].upper()}.unexpected_exception', f'case {spec!r} raised {type(e).__name__}: {e}')]
        for key, what in bad:
            lst = found.setdefault(key, [])
            if len(lst) < per_key:
                script = core + f'\nimport sys\nbad = check({spec!r})\nfor k, w in bad[:5]:\n    print("VIOLATION:", k, w)\nsys.exit(1 if bad else 0)\n'
                lst.append(Finding(key=key, what=what, script=script))
    rep.samples = samples
    rep.findings = [f for lst in found.values() for f in lst]
    return rep
