"""C12 bounded monitor, part 2: (a) exact builtin leaf classes (int, float, str, bytes, complex, range, frozenset, bytearray)
registered as custom nodes in a namespace are treated as custom nodes by EVERY traversal entry point there - and as leaves in
other namespaces - and again as leaves after unregistering; (b) unregistering in a namespace where the type is absent fails and
changes nothing, also when the type is registered globally (the global entry must survive).  Exhaustive over the listed grid."""
from ocv.bounded._extra import run_core

CORE = r'''
import optree
import optree.registry as R
G = next(v for k, v in R.__dict__.items() if k.endswith('GLOBAL_NAMESPACE'))
NS, OTHER = 'c12x', 'c12y'
SAMPLES = {int: 7, float: 2.5, str: 'ab', bytes: b'ab', complex: 1j, range: range(3), frozenset: frozenset({1}), bytearray: bytearray(b'x')}

def cases(tier):
    for cls in SAMPLES:
        yield ('builtin', cls.__name__)
    for where in ('global', 'named'):
        for absent in ('c12y', 'c12z'):
            yield ('absent', where, absent)

class Wrapped:
    def __init__(self, v): self.v = v

def entry_points(tree, ns):
    return {
        'tree_flatten': optree.tree_flatten(tree, namespace=ns)[0],
        'tree_leaves': optree.tree_leaves(tree, namespace=ns),
        'tree_iter': list(optree.tree_iter(tree, namespace=ns)),
        'tree_flatten_with_path': optree.tree_flatten_with_path(tree, namespace=ns)[1],
        'tree_map': optree.tree_leaves(optree.tree_map(lambda x: x, tree, namespace=ns), namespace=ns),
        'is_leaf': [] if not optree.tree_is_leaf(tree[0], namespace=ns) else ['LEAF'],
    }

def check(spec):
    bad = []
    if spec[0] == 'builtin':
        cls = next(c for c in SAMPLES if c.__name__ == spec[1])
        val = SAMPLES[cls]
        marker = object()
        tree = [val, 1 if cls is not int else 'other']
        try:
            optree.register_pytree_node(cls, lambda x: ((marker,), None), lambda m, c: val, namespace=NS)
        except Exception as e:
            return [('C12.unexpected_exception', f'registering {cls.__name__} in a namespace raised {type(e).__name__}: {e}')]
        try:
            for nm, leaves in entry_points(tree, NS).items():
                if nm == 'is_leaf':
                    if leaves:
                        bad.append(('C12.registered_type_is_a_node_for_every_entry_point', f'tree_is_leaf({val!r}, namespace={NS!r}) is True although {cls.__name__} is registered there'))
                elif not (leaves and leaves[0] is marker):
                    bad.append(('C12.registered_type_is_a_node_for_every_entry_point', f'{nm}([{val!r}, ...], namespace={NS!r}) gives leaves {leaves!r}: {cls.__name__} is registered as a custom node there (its flatten function yields a marker child)'))
            for nm, leaves in entry_points(tree, OTHER).items():
                if nm != 'is_leaf' and not (leaves and leaves[0] is val or leaves[0] == val):
                    bad.append(('C12.other_namespace_unaffected', f'{nm} in namespace {OTHER!r} gives {leaves!r} for [{val!r}, ...]'))
        finally:
            optree.unregister_pytree_node(cls, namespace=NS)
        for nm, leaves in entry_points(tree, NS).items():
            if nm != 'is_leaf' and not (leaves and (leaves[0] is val or leaves[0] == val)):
                bad.append(('C12.unregister_restores', f'after unregistering, {nm} in {NS!r} gives {leaves!r} for [{val!r}, ...]'))
        return bad
    _, where, absent = spec
    reg_ns = G if where == 'global' else NS
    optree.register_pytree_node(Wrapped, lambda w: ((w.v,), None), lambda m, c: Wrapped(*c), namespace=reg_ns)
    try:
        tree = [Wrapped(5)]
        before = {n: optree.tree_leaves(tree, namespace=n) for n in ('', NS, absent)}
        try:
            optree.unregister_pytree_node(Wrapped, namespace=absent)
            bad.append(('C12.unregister_absent_fails', f'unregister_pytree_node(Wrapped, namespace={absent!r}) succeeded although it is registered only in {where}'))
        except ValueError:
            pass
        except Exception as e:
            bad.append(('C12.unregister_absent_fails', f'unregister_pytree_node(Wrapped, namespace={absent!r}) raised {type(e).__name__}: {e} instead of ValueError'))
        after = {n: optree.tree_leaves(tree, namespace=n) for n in ('', NS, absent)}
        if after != before:
            bad.append(('C12.failed_call_leaves_registry_unchanged', f'a failing unregister in {absent!r} changed flattening: before {before!r}, after {after!r}'))
    finally:
        try:
            optree.unregister_pytree_node(Wrapped, namespace=reg_ns)
        except Exception:
            pass
    return bad
'''


def run(tier, seed):
    return run_core('c12_extra', CORE, tier,
                    scope='8 exact builtin leaf classes registered as custom nodes x 6 entry points x {registered, other, unregistered}; unregister '
                          'in an absent namespace x {registered globally, in a namespace}',
                    rule='one evaluation = one registration history observed through every entry point')
