"""Driver:  check <Cxx> <quick|thorough>   |   check <Cxx> --replay FILE

Exit protocol (DESIGN.md 1.5):
  0  every obligation discharged, bounded stand-ins clean (KNOWN-FINDING lines allowed)
  1  VIOLATION property=<id> replay=<path> [no-failing-input-found]
  2  UNDECIDED (solver unknown / contract drift) - never printed as a violation
  3  tool error (engine crash, zero obligations, cross-check mismatch)
"""
from __future__ import annotations

import hashlib
import importlib
import json
import os
import re
import subprocess
import sys
import time
import traceback
from concurrent.futures import ThreadPoolExecutor
from pathlib import Path

from . import build as B
from .result import BoundedReport, Finding, Obligation, jdump

VERIF = Path(__file__).resolve().parent.parent
EVID = VERIF / 'evidence'
REPLAYS = VERIF / 'replays'
PY = str(VERIF / '.venv' / 'bin' / 'python')
KNOWN = VERIF / 'known_findings.json'
LEDGER = VERIF / 'ocv' / 'ledger.json'


def load_known(pid: str) -> list[dict]:
    if not KNOWN.exists():
        return []
    data = json.loads(KNOWN.read_text())
    return [f for f in data.get('findings', []) if f.get('property') == pid and f.get('status') == 'open']


def match_known(known: list[dict], key: str, what: str) -> dict | None:
    for k in known:
        if k.get('key') == key and re.search(k.get('match', '.*'), what, re.S):
            return k
    return None


def run_bounded(module: str, tier: str, seed: int, build_dir: Path, timeout: int) -> BoundedReport:
    out = VERIF / '.build' / f'bounded-{module}-{os.getpid()}.json'
    cmd = [PY, '-m', 'ocv.bounded.runner', module, tier, str(seed), str(out)]
    t0 = time.time()
    try:
        r = subprocess.run(cmd, env=B.native_env(build_dir), cwd=str(VERIF), capture_output=True, text=True,
                           timeout=timeout)
    except subprocess.TimeoutExpired:
        raise RuntimeError(f'bounded monitor {module} timed out after {timeout}s')
    if r.returncode != 0 or not out.exists():
        raise RuntimeError(f'bounded monitor {module} crashed (rc={r.returncode}):\n{r.stdout[-2000:]}\n{r.stderr[-4000:]}')
    rep = BoundedReport.from_json(json.loads(out.read_text()))
    out.unlink()
    rep.wall_s = round(time.time() - t0, 2)
    return rep


def write_replay(pid: str, key: str, what: str, script: str, extra: dict | None = None) -> Path:
    REPLAYS.mkdir(exist_ok=True)
    h = hashlib.sha256((key + what).encode()).hexdigest()[:10]
    safe = re.sub(r'[^A-Za-z0-9_.-]+', '_', key)[:80]
    p = REPLAYS / f'{pid}-{safe}-{h}.py'
    header = ['# replay for property %s' % pid, '# violated obligation / clause: %s' % key]
    for line in what.splitlines():
        header.append('# ' + line)
    if extra:
        for line in json.dumps(extra, indent=1, default=str).splitlines():
            header.append('# ' + line)
    body = script if script.strip() else (
        'import sys\nprint("no concrete failing input was found for this obligation; see header")\nsys.exit(2)\n')
    p.write_text('\n'.join(header) + '\n' + body)
    return p


def replay_file(path: str) -> int:
    build_dir = B.build()
    r = subprocess.run([PY, path], env=B.native_env(build_dir), cwd=str(VERIF))
    # replay scripts exit 1 when the violation reproduces, 0 when it does not; crashes by signal count as reproduced
    if r.returncode < 0:
        print(f'replay crashed with signal {-r.returncode} (counts as reproduced)')
        return 1
    return r.returncode


def main(argv: list[str]) -> int:
    if len(argv) >= 3 and argv[1] == '--replay':
        return replay_file(argv[2])
    pid = argv[0]
    tier = argv[1] if len(argv) > 1 else os.environ.get('VERIF_TIER', 'quick')
    seed = int(os.environ.get('VERIF_SEED', '0') or 0)
    t0 = time.time()
    prop = importlib.import_module(f'ocv.props.{pid}')
    known = load_known(pid)
    obligations: list[Obligation] = []
    reports: list[BoundedReport] = []
    tool_errors: list[str] = []
    undecided: list[str] = []
    violations: list[tuple[str, str, Path, bool]] = []   # key, what, replay, reproduced
    known_hits: list[str] = []
    ded_info: dict = {}

    # 1. native build of the current working tree (shared by replay + bounded monitors)
    try:
        build_dir = B.build()
    except Exception as e:  # a tree that does not compile is not a property verdict
        print(f'TOOL-ERROR: build of /repo failed: {e}')
        return 3

    # 2. deductive part: VCs from the current source
    timeout = 900 if tier == 'quick' else 3300
    with ThreadPoolExecutor(max_workers=4) as ex:
        futs = {m: ex.submit(run_bounded, m, tier, seed, build_dir, timeout) for m in getattr(prop, 'BOUNDED', [])}
        try:
            if hasattr(prop, 'deductive'):
                obligations, ded_info = prop.deductive(tier, seed)
        except Exception:
            tool_errors.append('deductive engine crashed:\n' + traceback.format_exc())
        for m, f in futs.items():
            try:
                reports.append(f.result())
            except Exception as e:
                tool_errors.append(str(e))

    ledger = json.loads(LEDGER.read_text()) if LEDGER.exists() else {}
    # obligation identity for the drift check: the name without the per-path counters (#k) and auto-split indices (~k),
    # which change with every edit that adds or removes a path; what must not disappear is the obligation itself
    norm = lambda i: re.sub(r'(#\d+|~\d+)', '', i)
    base = {norm(i) for i in ledger.get(pid, [])}
    # native failing inputs found by the bounded contract monitors of this property in this run: they serve as the
    # native reproduction of a failed obligation when its own counter-model was not concretised
    native = [f for rep in reports for f in rep.findings if match_known(known, f.key, f.what) is None
              and not (re.match(r'^C\d\d\.', f.key) and not f.key.startswith(pid + '.'))]
    # 3. failed obligations -> replay natively
    for ob in obligations:
        if ob.status == 'discharged':
            continue
        if ob.status == 'error':
            tool_errors.append(f'{ob.id}: {ob.detail[:2000]}')
            continue
        if ob.status == 'unknown':
            undecided.append(f'{ob.id}: {ob.detail[:300]}')
            continue
        # failed
        finding = None
        try:
            if hasattr(prop, 'replay'):
                finding = prop.replay(ob, build_dir)
        except Exception:
            tool_errors.append(f'replay of {ob.id} crashed:\n' + traceback.format_exc())
        key = ob.id
        what = f'obligation {ob.id} ({ob.cls}) of {ob.function} at {ob.source} failed: {ob.detail[:1500]}'
        if finding is not None:
            what = finding.what + '\n' + what
        k = match_known(known, key, what)
        if k is not None:
            known_hits.append(f"KNOWN-FINDING: property={pid} {k.get('what', key)}")
            continue
        if finding is None and native:
            nf = native[0]
            finding = Finding(key=nf.key, what='native failing input (bounded contract monitor, same run): ' + nf.what,
                              script=nf.script, data=nf.data)
            what = finding.what + '\n' + what
        if finding is None and norm(ob.id) not in base and base:
            undecided.append(f'{ob.id}: new obligation (not in baseline ledger) failed without native reproduction: {ob.detail[:300]}')
            continue
        p = write_replay(pid, key, what, finding.script if finding else '', {'model': ob.model, 'solver': ob.detail[:4000]})
        violations.append((key, what, p, finding is not None))
    # obligations that disappeared (contract drift) or zero obligations
    if hasattr(prop, 'deductive') and not tool_errors:
        if not obligations:
            tool_errors.append('zero obligations generated')
        missing = sorted(base - {norm(o.id) for o in obligations})
        for m in missing:
            undecided.append(f'{m}: obligation of the baseline ledger was not generated (contract drift)')

    # 4. bounded findings (a monitor shared by two properties labels each clause with the property it belongs to)
    for rep in reports:
        for f in rep.findings:
            if re.match(r'^C\d\d\.', f.key) and not f.key.startswith(pid + '.'):
                continue
            k = match_known(known, f.key, f.what)
            if k is not None:
                known_hits.append(f"KNOWN-FINDING: property={pid} {k.get('what', f.key)}")
                continue
            p = write_replay(pid, f.key, f.what, f.script, f.data)
            violations.append((f.key, f.what, p, True))

    # 5. evidence
    wall = round(time.time() - t0, 2)
    n_ob = len(obligations)
    n_dis = sum(1 for o in obligations if o.status == 'discharged')
    level = prop.LEVEL
    cov: dict = {
        'explanation': prop.explanation(tier) if hasattr(prop, 'explanation') else getattr(prop, 'EXPLANATION', ''),
        'obligations': n_ob,
        'discharged': n_dis,
        'checker_cmd': f'./check {pid} {tier}',
        'trusted_base': list(getattr(prop, 'TRUSTED', [])) + list(ded_info.get('trusted', [])),
        'functions_under_contract': ded_info.get('functions', []),
        'obligation_classes': ded_info.get('classes', {}),
        'backends': ded_info.get('backends', {}),
        'solver_time_s': round(sum(o.time_s for o in obligations), 2),
        'extraction_drops': ded_info.get('drops', []),
        'not_proved_bounded_only': list(getattr(prop, 'BOUNDED_ONLY', [])),
        'not_covered': list(getattr(prop, 'NOT_COVERED', [])),
        'bounded': [{k: v for k, v in r.to_json().items() if k not in ('findings', 'samples')} for r in reports],
        'evaluations': sum(r.evaluations for r in reports) + n_ob,
        'distinct_nontrivial': sum(r.distinct_nontrivial for r in reports) + n_dis,
        'rule': '; '.join(f'[{r.name}] {r.rule}' for r in reports) or 'one evaluation per generated proof obligation',
        'samples': ([o.to_json() | {'detail': o.detail[:200]} for o in obligations[:6]]
                    + [s for r in reports for s in r.samples[:4]])[:24] or ['(none)'],
        'exhaustive': False,
        'obligation_list': [{'id': o.id, 'cls': o.cls, 'status': o.status, 'backend': o.backend, 't': round(o.time_s, 3)}
                            for o in obligations[:600]],
        'obligation_list_truncated': max(0, len(obligations) - 600),
        'not_discharged': [{'id': o.id, 'cls': o.cls, 'status': o.status, 'detail': o.detail[:300]}
                           for o in obligations if o.status != 'discharged'],
        'known_findings_reported': known_hits,
        'undecided': undecided,
        'tool_errors': [e[:500] for e in tool_errors],
    }
    ev = {
        'property_id': pid,
        'tier': tier if tier in ('quick', 'thorough') else 'quick',
        'seed': seed,
        'level': level,
        'coverage': cov,
        'assumptions': list(getattr(prop, 'ASSUMPTIONS', [])) + list(ded_info.get('assumptions', [])),
        'wall_s': wall,
        'violations': len(violations),
    }
    # runs against a scratch copy (OCV_REPO, used for seeded changes) must not overwrite the evidence of /repo itself
    evid_dir = EVID if not os.environ.get('OCV_REPO') else VERIF / '.build' / 'evidence-scratch'
    evid_dir.mkdir(parents=True, exist_ok=True)
    jdump(ev, str(evid_dir / f'{pid}.json'))

    for line in sorted(set(known_hits)):
        print(line)
    print(f'[{pid}/{tier}] obligations={n_ob} discharged={n_dis} bounded_evaluations={sum(r.evaluations for r in reports)} '
          f'violations={len(violations)} undecided={len(undecided)} errors={len(tool_errors)} wall={wall}s')
    if violations:
        for key, what, p, reproduced in violations:
            tail = '' if reproduced else ' no-failing-input-found'
            print(f'VIOLATION property={pid} replay={p}{tail}')
            print('  ' + what.splitlines()[0][:300])
        return 1
    if tool_errors:
        for e in tool_errors:
            print('TOOL-ERROR:', e[:3000])
        return 3
    if undecided:
        for u in undecided:
            print('UNDECIDED:', u)
        return 2
    return 0


if __name__ == '__main__':
    sys.exit(main(sys.argv[1:]))
