"""Build the optree extension from /repo's *current working tree* into /verif/.build/<hash>/optree.

The prebuilt /repo/optree/_C*.so (editable install) goes stale when sources are edited and is never
used by the checks.  The Python files are copied from the same working tree next to the fresh .so.
"""
from __future__ import annotations

import hashlib
import os
import shutil
import subprocess
import sys
import time
from concurrent.futures import ThreadPoolExecutor
from pathlib import Path

REPO = Path(os.environ.get('OCV_REPO', '/repo'))
VERIF = Path(__file__).resolve().parent.parent
BUILD_ROOT = VERIF / '.build'
PYINC = '/root/.pyenv/versions/3.12.1/include/python3.12'
PYBIND = '/venv/lib/python3.12/site-packages/torch/include'
SO_NAME = '_C.cpython-312-x86_64-linux-gnu.so'


def cxx_sources(repo: Path = REPO) -> list[Path]:
    return sorted((repo / 'src').glob('*.cpp')) + sorted((repo / 'src' / 'treespec').glob('*.cpp'))


def cxx_headers(repo: Path = REPO) -> list[Path]:
    return sorted((repo / 'include').rglob('*.h'))


def py_sources(repo: Path = REPO) -> list[Path]:
    return sorted(p for p in (repo / 'optree').rglob('*.py')) + sorted((repo / 'optree').rglob('*.pyi'))


def tree_hash(repo: Path = REPO, what: str = 'all') -> str:
    h = hashlib.sha256()
    files: list[Path] = []
    if what in ('all', 'cxx'):
        files += cxx_sources(repo) + cxx_headers(repo)
    if what in ('all', 'py'):
        files += py_sources(repo)
    for p in files:
        h.update(str(p.relative_to(repo)).encode())
        h.update(b'\0')
        h.update(p.read_bytes())
        h.update(b'\0')
    return h.hexdigest()[:16]


def cxx_flags(repo: Path = REPO) -> list[str]:
    return ['-std=c++20', '-fPIC', '-fvisibility=hidden', f'-I{repo}/include', f'-I{PYINC}',
            '-isystem', PYBIND]


def _prune(keep: str, kind: str) -> None:
    # keep disk use bounded: at most 25 builds of each kind (a build is ~5 MB); builds younger than an hour are never pruned
    ds = sorted((d for d in BUILD_ROOT.glob(f'{kind}-*') if d.is_dir() and d.name != keep),
                key=lambda d: d.stat().st_mtime)
    for d in [d for d in ds[:-24] if time.time() - d.stat().st_mtime > 3600]:
        shutil.rmtree(d, ignore_errors=True)


def build(repo: Path = REPO, san: bool = False, quiet: bool = True) -> Path:
    """Return a directory D such that PYTHONPATH=D imports the freshly built optree."""
    BUILD_ROOT.mkdir(exist_ok=True)
    kind = 'asan' if san else 'opt'
    key = f'{kind}-{tree_hash(repo)}'
    out = BUILD_ROOT / key
    pkg = out / 'optree'
    if (pkg / SO_NAME).exists() and (out / '.ok').exists():
        os.utime(out)
        return out
    if out.exists():
        shutil.rmtree(out, ignore_errors=True)
    final_out = out
    out = BUILD_ROOT / f'.tmp-{key}-{os.getpid()}'      # build privately, publish by rename (concurrent builders)
    if out.exists():
        shutil.rmtree(out)
    pkg = out / 'optree'
    obj = out / 'obj'
    obj.mkdir(parents=True)
    srcs = cxx_sources(repo)
    if san:
        cc = ['clang++-14', '-O1', '-g', '-fsanitize=address,undefined', '-fno-omit-frame-pointer',
              '-fno-sanitize-recover=undefined']
    else:
        cc = ['g++', '-O1']
    flags = cxx_flags(repo)
    t0 = time.time()

    def comp(src: Path) -> tuple[Path, subprocess.CompletedProcess]:
        o = obj / (src.stem + '.o')
        r = subprocess.run(cc + flags + ['-c', str(src), '-o', str(o)], capture_output=True, text=True)
        return o, r

    with ThreadPoolExecutor(max_workers=12) as ex:
        res = list(ex.map(comp, srcs))
    for o, r in res:
        if r.returncode != 0:
            sys.stderr.write(r.stderr[-4000:])
            raise RuntimeError(f'compile failed: {o.name}')
    shutil.copytree(repo / 'optree', pkg, ignore=shutil.ignore_patterns('*.so', '__pycache__'))
    link = cc[:1] + ['-shared', '-o', str(pkg / SO_NAME)] + [str(o) for o, _ in res]
    if san:
        link += ['-fsanitize=address,undefined', '-shared-libasan']
    r = subprocess.run(link, capture_output=True, text=True)
    if r.returncode != 0:
        sys.stderr.write(r.stderr[-4000:])
        raise RuntimeError('link failed')
    shutil.rmtree(obj)
    (out / '.ok').write_text(f'{time.time() - t0:.1f}s\n')
    try:
        os.rename(out, final_out)
    except OSError:
        shutil.rmtree(out, ignore_errors=True)        # somebody else published the same build first
    out = final_out
    _prune(key, kind)
    if not quiet:
        print(f'built {key} in {time.time() - t0:.1f}s', file=sys.stderr)
    return out


def native_env(build_dir: Path, extra: dict | None = None) -> dict:
    env = dict(os.environ)
    env['PYTHONPATH'] = str(build_dir) + os.pathsep + str(VERIF)
    env['PYTHONDONTWRITEBYTECODE'] = '1'
    env.pop('PYTHONHOME', None)
    if extra:
        env.update(extra)
    return env


if __name__ == '__main__':
    d = build(quiet=False, san='--asan' in sys.argv)
    print(d)
