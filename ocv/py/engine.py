"""pyvc: verification conditions from the real Python source (DESIGN.md 1.3).

The module's source is re-read with `ast` on every run (no import of the module, no edit of /repo).  A function is
executed symbolically, path by path; calls to functions under contract (the `_C` engine bindings, other optree
functions, builtins with a model) are replaced by their contract.  Sequences are *functional sequences*
(length term + element function), so slices, zip(*...), map(...) and comprehensions compose symbolically and sequence
facts are proved point-wise.

Encoding assumptions (A-PY): builtins and module globals are not rebound; len/isinstance/is/tuple()/list()/bool()/
zip/map/range/slicing have their standard semantics; attribute reads on opaque objects are pure; integers are
unbounded; generators used as context managers run their `finally` on exit/throw/close.
"""
from __future__ import annotations

import ast
import itertools
import itertools
from dataclasses import dataclass, field
from typing import Any, Callable

import z3

from ..cxx import model as M
from ..cxx.model import EMPTY, NULL, PYNONE, Bool, Int, Ref, Str, fresh
from ..cxx.symex import VC

GLOBAL_NS = z3.Const('GLOBAL_NAMESPACE_SENTINEL', Ref)   # optree.registry.__GLOBAL_NAMESPACE
is_str = z3.Function('py_isinstance_str', Ref, Bool)
str_of = z3.Function('py_str_value', Ref, Str)            # value of a Python str object
str_obj = z3.Function('py_str_object', Str, Ref)
truthy = z3.Function('py_bool', Ref, Bool)                # bool(obj) for opaque objects
is_class = z3.Function('inspect_isclass', Ref, Bool)


_ids = itertools.count()


class Unsupported(Exception):
    pass


@dataclass(frozen=True)
class TupV:
    items: tuple


@dataclass(frozen=True)
class SeqV:
    """Functional sequence: length term + element function (index term -> value)."""
    len: Any
    fn: Callable[[Any], Any]
    lazy: Any = None          # None, or a callable(state, index) performing the effect of producing element i

    def at(self, i):
        return self.fn(i)


@dataclass(frozen=True)
class FuncV:
    node: Any                 # ast.FunctionDef / ast.Lambda
    env: Any                  # defining environment (dict chain)
    name: str = ''


@dataclass(frozen=True)
class BoundV:                 # bound method of an object under contract
    obj: Any
    name: str


@dataclass(frozen=True)
class BuiltinV:
    name: str


@dataclass(frozen=True)
class OpaqueV:
    tag: str = ''


@dataclass(frozen=True)
class MapV:
    """Functional dict: membership predicate and value function over key terms (insertion order is not modelled)."""
    has: Callable[[Any], Any]
    val: Callable[[Any], Any]


@dataclass(frozen=True)
class StructV:
    """Structured symbolic value produced by a contract (e.g. the result of unflatten): kind + fields."""
    kind: str
    fields: tuple             # ((name, value), ...)

    def get(self, name):
        return dict(self.fields)[name]


class Env:
    def __init__(self, parent=None):
        self.vars = {}
        self.parent = parent

    def lookup(self, name):
        e = self
        while e is not None:
            if name in e.vars:
                return e
            e = e.parent
        return None

    def get(self, name):
        e = self.lookup(name)
        if e is None:
            raise KeyError(name)
        return e.vars[name]

    def clone(self, memo=None):
        memo = {} if memo is None else memo
        if id(self) in memo:
            return memo[id(self)]
        c = Env(self.parent.clone(memo) if self.parent is not None else None)
        memo[id(self)] = c
        c.vars = dict(self.vars)
        return c


class PState:
    def __init__(self):
        self.env = Env()
        self.pc: list = []
        self.facts: list = []
        self.ghost: dict = {'locks': (), 'trace': ()}

    def clone(self):
        s = PState.__new__(PState)
        s.env = self.env.clone()
        s.pc = list(self.pc)
        s.facts = list(self.facts)
        s.ghost = dict(self.ghost)
        return s


NORMAL = ('normal',)


def is_z3(v):
    return isinstance(v, z3.ExprRef)


class PyEngine:
    def __init__(self, module_path: str, source: str, contracts: dict):
        self.path = module_path
        self.tree = ast.parse(source)
        self.funcs = {n.name: n for n in ast.walk(self.tree) if isinstance(n, (ast.FunctionDef,))}
        # methods are also addressable as Class.method (the plain name keeps the last definition of that name)
        for c in ast.walk(self.tree):
            if isinstance(c, ast.ClassDef):
                for m in c.body:
                    if isinstance(m, ast.FunctionDef):
                        self.funcs[f'{c.name}.{m.name}'] = m
        self.contracts = contracts
        self.vcs: list[VC] = []
        self.fn = ''
        self.names: dict = {}
        self.solver = z3.Solver()
        self.solver.set('timeout', 400)
        self.cur = None
        self.exc: list = []

    # ---- obligations --------------------------------------------------------------------------------
    def oblige(self, st: PState, cls: str, role: str, goal, line=0, note=''):
        if is_z3(goal) and z3.is_and(goal) and goal.num_args() > 1:
            for k, g in enumerate(goal.children()):
                self.oblige(st, cls, f'{role}~{k}', g, line, note)
            return
        base = f'{self.fn}::{cls}::{role}'
        k = self.names.get(base, 0)
        self.names[base] = k + 1
        oid = base if k == 0 else f'{base}#{k}'
        g = goal if is_z3(goal) else z3.BoolVal(bool(goal))
        self.vcs.append(VC(oid, cls, list(st.facts) + list(st.pc), g, line, self.fn, note))

    def assume(self, st, e):
        st.pc.append(e if is_z3(e) else z3.BoolVal(bool(e)))

    def feasible(self, st):
        self.solver.push()
        for p in st.pc:
            self.solver.add(p)
        r = self.solver.check()
        self.solver.pop()
        return r != z3.unsat

    def throw(self, st, cls, line=0, info=''):
        self.exc.append((st, ('raise', cls, info, line)))

    # ---- truthiness / coercions ----------------------------------------------------------------------
    def truth(self, st, v):
        if isinstance(v, bool):
            return z3.BoolVal(v)
        if is_z3(v):
            if z3.is_bool(v):
                return v
            if z3.is_int(v):
                return v != 0
            if v.sort() == Str:
                return v != EMPTY
            if v.sort() == Ref:
                hook = getattr(self.cur, 'truth', None)
                if hook:
                    r = hook(self, st, v)
                    if r is not None:
                        return r
                return z3.And(v != PYNONE, truthy(v))
        if isinstance(v, (TupV,)):
            return z3.BoolVal(len(v.items) > 0)
        if isinstance(v, SeqV):
            return v.len > 0
        if isinstance(v, (FuncV, BuiltinV, BoundV)):
            return z3.BoolVal(True)
        raise Unsupported(f'truth({v!r})')

    def as_int(self, v):
        if isinstance(v, bool):
            return z3.IntVal(int(v))
        if isinstance(v, int):
            return z3.IntVal(v)
        if is_z3(v) and z3.is_int(v):
            return v
        if is_z3(v) and z3.is_bool(v):
            return z3.If(v, 1, 0)
        raise Unsupported(f'as_int({v!r})')

    # ---- expressions ------------------------------------------------------------------------------------
    def ev(self, n, st: PState) -> list:
        h = getattr(self, 'e_' + type(n).__name__, None)
        if h is None:
            raise Unsupported(f'expression {type(n).__name__} at L{getattr(n, "lineno", 0)} in {self.fn}')
        return h(n, st)

    def ev_seq(self, nodes, st):
        outs = [(st, [])]
        for n in nodes:
            nxt = []
            for s, vals in outs:
                for s2, v in self.ev(n, s):
                    nxt.append((s2, vals + [v]))
            outs = nxt
        return outs

    def e_Constant(self, n, st):
        v = n.value
        if v is None:
            return [(st, PYNONE)]
        if isinstance(v, bool):
            return [(st, z3.BoolVal(v))]
        if isinstance(v, int):
            return [(st, z3.IntVal(v))]
        if isinstance(v, str):
            return [(st, EMPTY if v == '' else z3.Const('strlit_' + str(abs(hash(v)) % 10**8), Str))]
        return [(st, OpaqueV(repr(v)))]

    def e_Dict(self, n, st):
        # a dict display {k: v, **m}: its parts are evaluated (in order), the new dict itself is opaque - it is a NEW object,
        # identical to none of its sources
        outs = []
        parts = [x for kv in zip(n.keys, n.values) for x in kv if x is not None]
        for s2, vals in self.ev_seq(parts, st):
            if all(k is not None for k in n.keys):
                ks, vs = vals[0::2], vals[1::2]
                if all(is_z3(k) for k in ks) and len({k.sort() for k in ks}) <= 1:
                    # {k1: v1, ...} with key terms of one sort: a functional dict, later entries win
                    def has(q, ks=ks):
                        return z3.Or(*[q == k for k in ks]) if ks else z3.BoolVal(False)

                    def val(q, ks=ks, vs=vs):
                        out = z3.Const('value_of_a_missing_key', Ref) if all(is_z3(v) and v.sort() == Ref for v in vs) else OpaqueV('missing')
                        for k, v in zip(ks, vs):
                            out = self.ite(q == k, v, out)
                        return out
                    outs.append((s2, MapV(has, val)))
                    continue
            outs.append((s2, OpaqueV(f'dict-display@L{n.lineno}')))
        return outs

    def e_JoinedStr(self, n, st):
        return [(st, OpaqueV('fstring'))]

    def e_Name(self, n, st):
        e = st.env.lookup(n.id)
        if e is not None:
            return [(st, e.vars[n.id])]
        hook = getattr(self.cur, 'global_name', None)
        if hook:
            v = hook(self, st, n.id)
            if v is not None:
                return [(st, v)]
        if n.id in ('isinstance', 'len', 'range', 'zip', 'map', 'list', 'tuple', 'bool', 'dict', 'callable', 'issubclass',
                    'sorted', 'set', 'frozenset', 'iter', 'next', 'enumerate', 'int', 'str', 'type', 'getattr', 'slice'):
            return [(st, BuiltinV(n.id))]
        if n.id in self.funcs:
            return [(st, FuncV(self.funcs[n.id], Env(), n.id))]
        raise Unsupported(f'name {n.id} at L{n.lineno} in {self.fn}')

    def e_Attribute(self, n, st):
        outs = []
        for s, base in self.ev(n.value, st):
            outs.append((s, self.attribute(s, base, n.attr, n)))
        return outs

    def attribute(self, st, base, attr, n=None):
        hook = getattr(self.cur, 'attribute', None)
        if hook:
            v = hook(self, st, base, attr)
            if v is not None:
                return v
        if isinstance(base, StructV) and attr in dict(base.fields):
            return base.get(attr)
        if isinstance(base, OpaqueV) and base.tag.startswith('module:'):
            return BoundV(base, attr)
        return BoundV(base, attr)

    def e_Tuple(self, n, st):
        if any(isinstance(e, ast.Starred) for e in n.elts):
            # (*seq, a, b): a sequence value
            outs = []
            for s, vals in self.ev_seq([e.value if isinstance(e, ast.Starred) else e for e in n.elts], st):
                seq = SeqV(z3.IntVal(0), lambda i: OpaqueV('empty'))
                for e, v in zip(n.elts, vals):
                    part = self.to_seq(s, v) if isinstance(e, ast.Starred) else SeqV(z3.IntVal(1), lambda i, v=v: v)
                    seq = self.concat(seq, part)
                outs.append((s, seq))
            return outs
        return [(s, TupV(tuple(vals))) for s, vals in self.ev_seq(n.elts, st)]

    def e_List(self, n, st):
        outs = []
        for s, vals in self.ev_seq(n.elts, st):
            vs = list(vals)
            outs.append((s, SeqV(z3.IntVal(len(vs)), self._const_seq(vs))))
        return outs

    def _const_seq(self, vs):
        def fn(i, vs=vs):
            if not vs:
                return OpaqueV('empty')
            out = vs[-1]
            for k in range(len(vs) - 2, -1, -1):
                out = self.ite(i == k, vs[k], out)
            return out
        return fn

    def ite(self, c, a, b):
        if a is b:
            return a
        if is_z3(a) and is_z3(b) and a.sort() == b.sort():
            return z3.If(c, a, b)
        if isinstance(a, SeqV) and isinstance(b, SeqV):
            return SeqV(z3.If(c, a.len, b.len), lambda i, a=a, b=b, c=c: self.ite(c, a.at(i), b.at(i)))
        if isinstance(a, TupV) and isinstance(b, TupV) and len(a.items) == len(b.items):
            return TupV(tuple(self.ite(c, x, y) for x, y in zip(a.items, b.items)))
        if isinstance(a, StructV) and isinstance(b, StructV) and a.kind == b.kind:
            return StructV(a.kind, tuple((k, self.ite(c, v, b.get(k))) for k, v in a.fields))
        if isinstance(a, OpaqueV) or isinstance(b, OpaqueV):
            return OpaqueV('ite')
        raise Unsupported(f'ite({a!r}, {b!r})')

    def e_UnaryOp(self, n, st):
        outs = []
        for s, v in self.ev(n.operand, st):
            if isinstance(n.op, ast.Not):
                outs.append((s, z3.Not(self.truth(s, v))))
            elif isinstance(n.op, ast.USub):
                outs.append((s, -self.as_int(v)))
            else:
                raise Unsupported('unary op')
        return outs

    def e_BoolOp(self, n, st):
        # value semantics of and/or are only needed as truth values or `x or y` selections
        is_and = isinstance(n.op, ast.And)
        outs = [(st, None)]
        for idx, e in enumerate(n.values):
            nxt = []
            for s, acc in outs:
                if acc is not None and acc[0] == 'done':
                    nxt.append((s, acc))
                    continue
                for s2, v in self.ev(e, s):
                    t = self.truth(s2, v)
                    if idx == len(n.values) - 1:
                        nxt.append((s2, ('val', v, acc)))
                        continue
                    # short circuit: fork
                    s_stop, s_go = s2.clone(), s2
                    self.assume(s_stop, z3.Not(t) if is_and else t)
                    self.assume(s_go, t if is_and else z3.Not(t))
                    if self.feasible(s_stop):
                        nxt.append((s_stop, ('done', v)))
                    if self.feasible(s_go):
                        nxt.append((s_go, None))
            outs = nxt
        res = []
        for s, acc in outs:
            res.append((s, acc[1]))
        return res

    def e_Compare(self, n, st):
        if len(n.ops) != 1:
            raise Unsupported('chained comparison')
        op = n.ops[0]
        outs = []
        for s, (a, b) in self.ev_seq([n.left, n.comparators[0]], st):
            outs.append((s, self.compare(s, op, a, b)))
        return outs

    def compare(self, st, op, a, b):
        if isinstance(op, (ast.Is, ast.IsNot)):
            e = self.identical(a, b)
            return e if isinstance(op, ast.Is) else z3.Not(e)
        if isinstance(op, (ast.Eq, ast.NotEq)):
            e = self.equal(st, a, b)
            return e if isinstance(op, ast.Eq) else z3.Not(e)
        if isinstance(op, (ast.In, ast.NotIn)) and isinstance(b, TupV):
            e = z3.Or(*[self.equal(st, a, x) for x in b.items]) if b.items else z3.BoolVal(False)
            return e if isinstance(op, ast.In) else z3.Not(e)
        if isinstance(op, (ast.In, ast.NotIn)) and is_z3(b) and b.sort() == Ref and is_z3(a):
            # `x in obj` for an object reference: an uninterpreted membership test (obj.__contains__)
            e = z3.Function(f'py_contains_{a.sort().name()}', Ref, a.sort(), Bool)(b, a)
            return e if isinstance(op, ast.In) else z3.Not(e)
        if isinstance(op, (ast.Lt, ast.LtE, ast.Gt, ast.GtE)) and isinstance(a, TupV) and isinstance(b, TupV) \
                and len(a.items) == len(b.items) and a.items:
            # lexicographic comparison of integer tuples of equal length (e.g. sys.version_info[:2] >= (3, 10))
            xs, ys = [self.as_int(v) for v in a.items], [self.as_int(v) for v in b.items]
            strict = z3.BoolVal(False)
            for k in range(len(xs) - 1, -1, -1):
                lt = xs[k] < ys[k] if isinstance(op, (ast.Lt, ast.LtE)) else xs[k] > ys[k]
                strict = z3.Or(lt, z3.And(xs[k] == ys[k], strict))
            eq = z3.And(*[x == y for x, y in zip(xs, ys)])
            return z3.Or(strict, eq) if isinstance(op, (ast.LtE, ast.GtE)) else strict
        if isinstance(op, (ast.Lt, ast.LtE, ast.Gt, ast.GtE)):
            x, y = self.as_int(a), self.as_int(b)
            return {ast.Lt: x < y, ast.LtE: x <= y, ast.Gt: x > y, ast.GtE: x >= y}[type(op)]
        raise Unsupported(f'compare {type(op).__name__}')

    def identical(self, a, b):
        hook = getattr(self.cur, 'identical', None)
        if hook:
            r = hook(self, a, b)
            if r is not None:
                return r
        if is_z3(a) and is_z3(b) and a.sort() == b.sort():
            return a == b
        if is_z3(a) and is_z3(b):
            return z3.BoolVal(False)
        return z3.BoolVal(a is b or a == b)

    def equal(self, st, a, b):
        hook = getattr(self.cur, 'equal', None)
        if hook:
            r = hook(self, st, a, b)
            if r is not None:
                return r
        if is_z3(a) and is_z3(b):
            if a.sort() == b.sort():
                return a == b
            if a.sort() == Ref and b.sort() == Str:
                return z3.And(is_str(a), str_of(a) == b)
            if a.sort() == Str and b.sort() == Ref:
                return z3.And(is_str(b), str_of(b) == a)
            if z3.is_bool(a) or z3.is_bool(b):
                return self.truth(st, a) == self.truth(st, b)
        raise Unsupported(f'equal({a!r}, {b!r})')

    def e_BinOp(self, n, st):
        outs = []
        for s, (a, b) in self.ev_seq([n.left, n.right], st):
            if isinstance(a, SeqV) and isinstance(b, SeqV) and isinstance(n.op, ast.Add):
                outs.append((s, SeqV(a.len + b.len, lambda i, a=a, b=b: self.ite(i < a.len, a.at(i), b.at(i - a.len)))))
                continue
            hook = getattr(self.cur, 'binop', None)
            hv = hook(self, s, n.op, a, b) if hook else None
            if hv is not None:
                outs.append((s, hv))
                continue
            x, y = self.as_int(a), self.as_int(b)
            r = {ast.Add: lambda: x + y, ast.Sub: lambda: x - y, ast.Mult: lambda: x * y, ast.FloorDiv: lambda: x / y,
                 ast.Mod: lambda: x % y}.get(type(n.op))
            if r is None:
                raise Unsupported('binop')
            outs.append((s, r()))
        return outs

    def e_IfExp(self, n, st):
        outs = []
        for s, c in self.ev(n.test, st):
            c = self.truth(s, c)
            s_t, s_f = s, s.clone()
            self.assume(s_t, c)
            self.assume(s_f, z3.Not(c))
            if self.feasible(s_t):
                outs += self.ev(n.body, s_t)
            if self.feasible(s_f):
                outs += self.ev(n.orelse, s_f)
        return outs

    def e_Lambda(self, n, st):
        return [(st, FuncV(n, st.env, '<lambda>'))]

    def e_Subscript(self, n, st):
        outs = []
        for s, base in self.ev(n.value, st):
            if isinstance(n.slice, ast.Slice):
                lo_n, hi_n = n.slice.lower, n.slice.upper
                if n.slice.step is not None:
                    raise Unsupported('slice step')
                for s2, vals in self.ev_seq([x for x in (lo_n, hi_n) if x is not None], s):
                    it = iter(vals)
                    lo = self.as_int(next(it)) if lo_n is not None else z3.IntVal(0)
                    hi = self.as_int(next(it)) if hi_n is not None else None
                    outs.append((s2, self.slice(s2, base, lo, hi)))
            else:
                for s2, idx in self.ev(n.slice, s):
                    outs.append((s2, self.index(s2, base, idx, n)))
        return outs

    def slice(self, st, seq, lo, hi):
        if not isinstance(seq, SeqV):
            try:
                seq = self.to_seq(st, seq)
            except Unsupported:
                raise Unsupported(f'slice of {seq!r}')
        # non-negative bounds only (as in the code under contract); clamped like Python
        hi = seq.len if hi is None else hi
        h0 = z3.simplify(hi) if is_z3(hi) else hi
        if is_z3(h0) and z3.is_int_value(h0) and h0.as_long() < 0:
            hi = z3.If(seq.len + hi < 0, 0, seq.len + hi)        # Python negative slice bound
        lo_c = z3.If(lo > seq.len, seq.len, lo)
        hi_c = z3.If(hi > seq.len, seq.len, hi)
        ln = z3.If(hi_c > lo_c, hi_c - lo_c, 0)
        self.oblige(st, 'II', 'slice:bounds-non-negative', z3.And(lo >= 0, hi >= 0), 0)
        return SeqV(ln, lambda i, seq=seq, lo_c=lo_c: seq.at(lo_c + i))

    def index(self, st, base, idx, n=None):
        if isinstance(base, TupV):
            if is_z3(idx) and z3.is_int_value(idx):
                return base.items[idx.as_long()]
            raise Unsupported('symbolic index into a tuple')
        if isinstance(base, SeqV):
            i = self.as_int(idx)
            i0 = z3.simplify(i)
            if z3.is_int_value(i0) and i0.as_long() < 0:
                i = base.len + i            # Python negative index
            inr = z3.And(0 <= i, i < base.len)
            s_bad = st.clone()
            self.assume(s_bad, z3.Not(inr))
            if self.feasible(s_bad):
                self.throw(s_bad, 'IndexError', getattr(n, 'lineno', 0))
            self.assume(st, inr)
            return base.at(i)
        hook = getattr(self.cur, 'subscript', None)
        if hook:
            r = hook(self, st, base, idx)
            if r is not None:
                return r
        raise Unsupported(f'subscript of {base!r}')

    def e_ListComp(self, n, st):
        return self._comprehension(n, st)

    e_GeneratorExp = e_ListComp

    def e_DictComp(self, n, st):
        """{k(x): v(x) for x in seq if c(x)}: the entry for a key is produced by the LAST index whose element passes the filter
        and has that key.  `last` is a fresh function: last(key) is such an index whenever one exists (definitional)."""
        if len(n.generators) != 1:
            raise Unsupported('dict comprehension shape')
        g = n.generators[0]
        outs = []
        for s, it in self.ev(g.iter, st):
            seq = self.to_seq(s, it)

            def at(i, what, seq=seq, s=s):
                s2 = s.clone()
                s2.env = Env(s2.env)
                self.bind_target(s2, g.target, seq.at(i))
                if what == 'cond':
                    c = z3.BoolVal(True)
                    for cnd in g.ifs:
                        (s3, v), = self.ev(cnd, s2)
                        c = z3.And(c, self.truth(s3, v))
                    return c
                (s3, v), = self.ev(n.key if what == 'key' else n.value, s2)
                return v
            key0 = at(z3.Int('k!probe'), 'key')
            if not is_z3(key0):
                raise Unsupported('dict comprehension with structured keys')
            ksort = key0.sort()
            last = z3.Function(f'last_index!{next(_ids)}', ksort, Int)
            k, t = z3.Int('k!dc'), z3.Const('t!dc', ksort)
            inr = lambda i: z3.And(0 <= i, i < seq.len)
            hit = lambda i, key: z3.And(inr(i), at(i, 'cond'), at(i, 'key') == key)
            has = lambda key, hit=hit, k=k: z3.Exists([k], hit(k, key))
            # definition of last: an index that hits, and no later index hits
            s.facts.append(z3.ForAll([t], z3.Implies(z3.Exists([k], hit(k, t)),
                                                     z3.And(hit(last(t), t), z3.ForAll([k], z3.Implies(k > last(t), z3.Not(hit(k, t))))))))
            val = lambda key, last=last, at=at: at(last(key), 'val')
            outs.append((s, MapV(has, val)))
        return outs

    def _comprehension(self, n, st):
        if len(n.generators) != 1 or n.generators[0].ifs:
            raise Unsupported('comprehension shape')
        g = n.generators[0]
        outs = []
        for s, it in self.ev(g.iter, st):
            seq = self.to_seq(s, it)
            elt, target = n.elt, g.target

            def fn(i, seq=seq, s=s, elt=elt, target=target):
                s2 = s.clone()
                s2.env = Env(s2.env)
                s2.pc.append(z3.And(0 <= i, i < seq.len))       # elements exist only for indices in range
                self.bind_target(s2, target, seq.at(i))
                r = self.ev(elt, s2)
                if len(r) != 1:
                    raise Unsupported('forking comprehension element')
                return r[0][1]
            outs.append((s, SeqV(seq.len, fn)))
        return outs

    def to_seq(self, st, v):
        if isinstance(v, SeqV):
            return v
        if isinstance(v, TupV):
            vs = list(v.items)
            return SeqV(z3.IntVal(len(vs)), self._const_seq(vs))
        hook = getattr(self.cur, 'to_seq', None)
        if hook:
            r = hook(self, st, v)
            if r is not None:
                return r
        raise Unsupported(f'iteration over {v!r}')

    def bind_target(self, st, target, value):
        if isinstance(target, ast.Name):
            st.env.vars[target.id] = value
        elif isinstance(target, ast.Tuple):
            if isinstance(value, TupV) and len(value.items) == len(target.elts):
                for t, v in zip(target.elts, value.items):
                    self.bind_target(st, t, v)
            else:
                raise Unsupported(f'unpacking {value!r}')
        else:
            raise Unsupported('assignment target')

    def e_Yield(self, n, st):
        raise Unsupported('yield outside a context-manager generator statement')

    # ---- calls ---------------------------------------------------------------------------------------------
    def e_Call(self, n, st):
        # dict.update(other) on a local functional dict: later entries win
        if isinstance(n.func, ast.Attribute) and n.func.attr == 'update' and isinstance(n.func.value, ast.Name) and len(n.args) == 1 \
                and st.env.lookup(n.func.value.id) is not None and isinstance(st.env.get(n.func.value.id), MapV):
            res = []
            for s, other in self.ev(n.args[0], st):
                base = s.env.get(n.func.value.id)
                if not isinstance(other, MapV):
                    raise Unsupported('dict.update with a non-dict')
                new = MapV(lambda q, a=base, b=other: z3.Or(a.has(q), b.has(q)),
                           lambda q, a=base, b=other: self.ite(b.has(q), b.val(q), a.val(q)))
                self.assign(s, n.func.value, new)
                res.append((s, PYNONE))
            return res
        outs = []
        for s, f in self.ev(n.func, st):
            star = [a for a in n.args if isinstance(a, ast.Starred)]
            plain = [a for a in n.args if not isinstance(a, ast.Starred)]
            kw_names = [k.arg for k in n.keywords]
            if sum(k is None for k in kw_names) > 1:
                raise Unsupported('call with several ** mappings')
            kw_names = ['**' if k is None else k for k in kw_names]      # f(..., **m): the mapping is handed to the hooks as '**'
            for s2, vals in self.ev_seq(plain + [a.value for a in star] + [k.value for k in n.keywords], s):
                args = vals[:len(plain)]
                stars = vals[len(plain):len(plain) + len(star)]
                kwargs = dict(zip(kw_names, vals[len(plain) + len(star):]))
                outs += self.call(s2, f, args, kwargs, n, stars)
        return outs

    def call(self, st, f, args, kwargs, n, stars=()):
        line = getattr(n, 'lineno', 0)
        hook = getattr(self.cur, 'call', None)
        if '**' in kwargs and not hook:
            raise Unsupported('**kwargs call')
        if hook:
            r = hook(self, st, f, args, kwargs, n, stars)
            if r is not None:
                return r
        if '**' in kwargs:
            raise Unsupported('**kwargs call')
        if isinstance(f, BuiltinV):
            return self.builtin(st, f.name, args, kwargs, n, stars)
        if isinstance(f, FuncV):
            if stars:
                if any(isinstance(a, ast.Starred) for a in n.args[:-len(stars)]) or not isinstance(n.args[-1], ast.Starred):
                    raise Unsupported('starred argument that is not last')
                n._ocv_stars = tuple(stars)
            elif hasattr(n, '_ocv_stars'):
                del n._ocv_stars
            return self.call_function(st, f, args, kwargs, n)
        raise Unsupported(f'call of {f!r} at L{line} in {self.fn}')

    def concat(self, a, b):
        if z3.is_int_value(z3.simplify(a.len)) and z3.simplify(a.len).as_long() == 0:
            return b
        if z3.is_int_value(z3.simplify(b.len)) and z3.simplify(b.len).as_long() == 0:
            return a
        return SeqV(a.len + b.len, lambda i, a=a, b=b: self.ite(i < a.len, a.at(i), b.at(i - a.len)))

    def call_function(self, st, f: FuncV, args, kwargs, n):
        node = f.node
        saved = st.env
        st.env = Env(f.env if f.env is not None else None)
        a = node.args
        params = [x.arg for x in a.posonlyargs + a.args]
        for p, v in zip(params, args):
            st.env.vars[p] = v
        if a.vararg is not None:
            extra = list(args[len(params):])
            seq = SeqV(z3.IntVal(len(extra)), self._const_seq(extra))
            for star in getattr(n, '_ocv_stars', ()):
                seq = self.concat(seq, self.to_seq(st, star))
            st.env.vars[a.vararg.arg] = seq
        elif len(args) > len(params):
            raise Unsupported(f'too many positional arguments for {f.name}')
        for k, v in kwargs.items():
            st.env.vars[k] = v
        # defaults of parameters that were not passed
        defaults = dict(zip(reversed(params), reversed(a.defaults)))
        for kw, d in zip(a.kwonlyargs, a.kw_defaults):
            if d is not None:
                defaults[kw.arg] = d
        for pn, d in defaults.items():
            if pn not in st.env.vars:
                if isinstance(d, ast.Constant):
                    (s_, dv), = self.e_Constant(d, st)
                    st.env.vars[pn] = dv
                else:
                    raise Unsupported(f'non-constant default of {pn}')
        outs = []
        if isinstance(node, ast.Lambda):
            for s2, v in self.ev(node.body, st):
                s2.env = saved if s2 is st else saved.clone()
                outs.append((s2, v))
            return outs
        saved_exc = self.exc
        self.exc = []
        res = self.ex_block(node.body, st)
        thrown = self.exc
        self.exc = saved_exc
        for s2, o in res:
            s2.env = saved if s2 is st else saved.clone()
            if o is NORMAL:
                outs.append((s2, PYNONE))
            elif o[0] == 'return':
                outs.append((s2, o[1]))
            else:
                raise Unsupported(f'callee ended with {o}')
        for s2, o in thrown:
            s2.env = saved if s2 is st else saved.clone()
            self.exc.append((s2, o))
        return outs

    def builtin(self, st, name, args, kwargs, n, stars=()):
        line = getattr(n, 'lineno', 0)
        if name == 'isinstance':
            obj, cls = args
            hook = getattr(self.cur, 'isinstance', None)
            if hook:
                r = hook(self, st, obj, cls)
                if r is not None:
                    return [(st, r)]
            if isinstance(cls, BuiltinV) and cls.name == 'str':
                if is_z3(obj) and obj.sort() == Str:
                    return [(st, z3.BoolVal(True))]
                if is_z3(obj) and obj.sort() == Ref:
                    return [(st, is_str(obj))]
            raise Unsupported(f'isinstance(_, {cls!r})')
        if name == 'len':
            v = args[0]
            if isinstance(v, SeqV):
                return [(st, v.len)]
            if isinstance(v, TupV):
                return [(st, z3.IntVal(len(v.items)))]
            raise Unsupported(f'len({v!r})')
        if name == 'bool':
            return [(st, self.truth(st, args[0]))]
        if name == 'range':
            if len(args) == 1:
                lo, hi, step = z3.IntVal(0), self.as_int(args[0]), z3.IntVal(1)
            elif len(args) == 2:
                lo, hi, step = self.as_int(args[0]), self.as_int(args[1]), z3.IntVal(1)
            else:
                lo, hi, step = (self.as_int(a) for a in args)
            self.oblige(st, 'II', 'range:positive-step', step > 0, line)
            # len(range(lo, hi, step)) for step > 0: number of k >= 0 with lo + k*step < hi
            ln = fresh('range_len', Int)
            st.facts.append(z3.And(ln >= 0, z3.Implies(hi <= lo, ln == 0),
                                   z3.Implies(hi > lo, z3.And(lo + (ln - 1) * step < hi, lo + ln * step >= hi))))
            return [(st, SeqV(ln, lambda i, lo=lo, step=step: lo + i * step))]
        if name in ('list', 'tuple'):
            if not args:
                return [(st, SeqV(z3.IntVal(0), lambda i: OpaqueV('empty')))]
            seq = self.to_seq(st, args[0])
            return self.force(st, seq, n)
        if name == 'zip':
            seqs = [self.to_seq(st, a) for a in args]
            if stars:
                outer = self.to_seq(st, stars[0])
                # zip(*outer): len = min over rows (rows are required to have a common length L: obligation), width symbolic
                return [(st, self.zip_star(st, outer, line))]
            if not seqs:
                raise Unsupported('zip()')
            ln = seqs[0].len
            for s_ in seqs[1:]:
                ln = z3.If(s_.len < ln, s_.len, ln)
            return [(st, SeqV(ln, lambda i, seqs=seqs: TupV(tuple(s_.at(i) for s_ in seqs))))]
        if name == 'map':
            f = args[0]
            seqs = [self.to_seq(st, a) for a in args[1:]]
            if stars:
                raise Unsupported('map(f, *seqs) with symbolic arity')
            ln = seqs[0].len
            for s_ in seqs[1:]:
                ln = z3.If(s_.len < ln, s_.len, ln)
            return [(st, SeqV(ln, None, lazy=('map', f, tuple(seqs))))]
        if name == 'callable':
            return [(st, z3.Function('py_callable', Ref, Bool)(args[0]) if is_z3(args[0]) else z3.BoolVal(True))]
        raise Unsupported(f'builtin {name} at L{line} in {self.fn}')

    def zip_star(self, st, outer: SeqV, line):
        """zip(*rows): column j is the sequence <rows[i][j]>_i.  All rows must be sequences; the result length is the
        minimum row length, which is stated via a fresh term constrained by obligations of the caller's contract."""
        width = fresh('zip_width', Int)
        i = z3.Int('i!zip')
        rows_len = lambda k: self.to_seq(st, outer.at(k)).len
        # width = min_i len(rows[i]) ; with at least one row.  Characterised by: width <= len(row_i) for all i and
        # width == len(row_w) for a witness row w.
        w = fresh('zip_witness', Int)
        st.facts.append(z3.Implies(outer.len > 0, z3.And(0 <= w, w < outer.len, width == rows_len(w))))
        st.facts.append(z3.Implies(outer.len <= 0, width == 0))
        st.ghost['zip_rows'] = st.ghost.get('zip_rows', ()) + ((outer, width),)
        return SeqV(width, lambda j, outer=outer: SeqV(outer.len, lambda k, j=j, outer=outer: self.to_seq(st, outer.at(k)).at(j)))

    def force(self, st, seq: SeqV, n):
        """Materialise a lazy sequence (list(map(...))): the producer's effects happen for every index, in order."""
        if seq.lazy is None:
            return [(st, seq)]
        kind, f, seqs = seq.lazy
        hook = getattr(self.cur, 'force_map', None)
        if hook:
            r = hook(self, st, seq, f, seqs, n)
            if r is not None:
                return r
        raise Unsupported('list(map(...)) without a contract for the mapped callable')

    # ---- statements --------------------------------------------------------------------------------------------
    def ex(self, n, st):
        h = getattr(self, 's_' + type(n).__name__, None)
        if h is None:
            raise Unsupported(f'statement {type(n).__name__} at L{getattr(n, "lineno", 0)} in {self.fn}')
        return h(n, st)

    def ex_block(self, stmts, st):
        cur, done = [st], []
        for k, stmt in enumerate(stmts):
            nxt = []
            for s in cur:
                for s2, o in self.ex(stmt, s):
                    if o is not NORMAL and o[0] == 'yield-in-try':
                        # generator suspended inside this statement: what follows it in this block runs after a resumption
                        # that leaves the statement normally
                        rest, inner = stmts[k + 1:], o[1]

                        def resume(s3, kind, rest=rest, inner=inner):
                            outs = []
                            for s4, o4 in inner(s3, kind):
                                outs += self.ex_block(rest, s4) if o4 is NORMAL else [(s4, o4)]
                            return outs
                        o = ('yield-in-try', resume)
                    (nxt if o is NORMAL else done).append(s2 if o is NORMAL else (s2, o))
            cur = nxt
            if not cur:
                break
        return [(s, NORMAL) for s in cur] + done

    def s_Expr(self, n, st):
        if isinstance(n.value, ast.Constant):
            return [(st, NORMAL)]          # docstring
        if isinstance(n.value, ast.Yield):
            return [(st, ('yield', None, n))]
        return [(s, NORMAL) for s, _ in self.ev(n.value, st)]

    def s_Pass(self, n, st):
        return [(st, NORMAL)]

    def s_Assign(self, n, st):
        outs = []
        for s, v in self.ev(n.value, st):
            for t in n.targets:
                self.assign(s, t, v)
            outs.append((s, NORMAL))
        return outs

    def s_AnnAssign(self, n, st):
        if n.value is None:
            return [(st, NORMAL)]
        outs = []
        for s, v in self.ev(n.value, st):
            self.assign(s, n.target, v)
            outs.append((s, NORMAL))
        return outs

    def assign(self, st, target, v):
        if isinstance(target, ast.Name):
            e = st.env.lookup(target.id)
            (e or st.env).vars[target.id] = v
        elif isinstance(target, ast.Tuple):
            if isinstance(v, TupV) and len(v.items) == len(target.elts):
                for t, x in zip(target.elts, v.items):
                    self.assign(st, t, x)
            elif isinstance(v, SeqV) or is_z3(v):
                if not isinstance(v, SeqV):
                    v = self.to_seq(st, v)          # unpacking an object: through the contract's sequence view of it
                k = len(target.elts)
                s_bad = st.clone()
                self.assume(s_bad, v.len != k)
                if self.feasible(s_bad):
                    self.throw(s_bad, 'ValueError', getattr(target, 'lineno', 0), 'unpack')
                self.assume(st, v.len == k)
                for i, t in enumerate(target.elts):
                    self.assign(st, t, v.at(z3.IntVal(i)))
            else:
                raise Unsupported(f'unpack {v!r}')
        elif isinstance(target, ast.Attribute) and isinstance(target.value, ast.Name) and \
                st.env.lookup(target.value.id) is not None and isinstance(st.env.get(target.value.id), StructV):
            old = st.env.get(target.value.id)
            fields = tuple((k, x) for k, x in old.fields if k != target.attr) + ((target.attr, v),)
            self.assign(st, target.value, StructV(old.kind, fields))
        elif isinstance(target, ast.Subscript):
            (s2, base), = self.ev(target.value, st)
            (s3, key), = self.ev(target.slice, st)
            if isinstance(base, MapV) and isinstance(target.value, ast.Name) and is_z3(key):
                new = MapV(lambda q, base=base, key=key: z3.Or(q == key, base.has(q)),
                           lambda q, base=base, key=key, v=v: self.ite(q == key, v, base.val(q)))
                self.assign(st, target.value, new)
                return
            hook = getattr(self.cur, 'store_subscript', None)
            if not hook or not hook(self, st, base, key, v):
                raise Unsupported('subscript store')
        else:
            raise Unsupported('assign target')

    def s_Return(self, n, st):
        if n.value is None:
            return [(st, ('return', PYNONE))]
        return [(s, ('return', v)) for s, v in self.ev(n.value, st)]

    def s_Raise(self, n, st):
        cls = st.ghost.get('active_exc', 'Exception')       # bare `raise` inside a handler re-raises the active exception
        if n.exc is not None:
            e = n.exc
            f = e.func if isinstance(e, ast.Call) else e
            cls = f.id if isinstance(f, ast.Name) else getattr(f, 'attr', 'Exception')
        self.throw(st, cls, n.lineno)
        return []

    def s_If(self, n, st):
        outs = []
        for s, c in self.ev(n.test, st):
            c = z3.simplify(self.truth(s, c))
            if z3.is_true(c):
                outs += self.ex_block(n.body, s)
                continue
            if z3.is_false(c):
                outs += self.ex_block(n.orelse, s) if n.orelse else [(s, NORMAL)]
                continue
            s_f = s.clone()
            self.assume(s, c)
            self.assume(s_f, z3.Not(c))
            if self.feasible(s):
                outs += self.ex_block(n.body, s)
            if self.feasible(s_f):
                outs += self.ex_block(n.orelse, s_f) if n.orelse else [(s_f, NORMAL)]
        return outs

    def s_With(self, n, st):
        # `with LOCK:` - a lock held for the extent of the body (released on every exit)
        outs = []
        names = []
        for item in n.items:
            (s_, v), = self.ev(item.context_expr, st)
            nm = v.tag if isinstance(v, OpaqueV) else repr(v)
            names.append(nm)
        st.ghost['locks'] = st.ghost['locks'] + tuple(names)
        saved_exc = self.exc
        self.exc = []
        res = self.ex_block(n.body, st)
        thrown = self.exc
        self.exc = saved_exc

        def release(s):
            locks = list(s.ghost['locks'])
            for nm in names:
                if nm in locks:
                    locks.remove(nm)
            s.ghost['locks'] = tuple(locks)
        for s, o in res:
            release(s)
            outs.append((s, o))
        for s, o in thrown:
            release(s)
            self.exc.append((s, o))
        return outs

    def s_Try(self, n, st):
        saved_exc = self.exc
        self.exc = []
        res = self.ex_block(n.body, st)
        thrown = self.exc
        self.exc = saved_exc
        outs = []
        for s, o in res:
            if o is not NORMAL and o[0] == 'yield':
                # generator suspended at a `yield` that ends the try body (context manager): the contract decides what the
                # with-body does; resume(state, kind) runs what the generator does when it is resumed normally
                # (kind 'normal') or by an exception thrown into it (kind = its class: 'Exception' stands for any subclass
                # of Exception, 'BaseException' for one that is not - KeyboardInterrupt, GeneratorExit, SystemExit)
                if n.body[-1] is not o[2]:
                    raise Unsupported('yield that is not the last statement of a try body')
                outs.append((s, ('yield-in-try', lambda s3, kind, n=n: self.try_exit(n, s3, kind))))
                continue
            if o is not NORMAL and o[0] == 'yield-in-try':
                raise Unsupported('nested try around a suspended generator')
            if o is NORMAL and n.orelse:
                for s2, o2 in self.ex_block(n.orelse, s):
                    outs += self.try_finally(n, s2, o2)
                continue
            outs += self.try_finally(n, s, o)
        for s, o in thrown:
            for s2, o2 in self.try_exit(n, s, o[1], thrown=o):
                if o2 is not NORMAL and o2[0] == 'raise':
                    self.exc.append((s2, o2))
                else:
                    outs.append((s2, o2))
        return outs

    def try_finally(self, n, s, o):
        outs = []
        for s2, o2 in self.ex_block(n.finalbody, s):
            if o2 is not NORMAL and o2[0] == 'raise':
                self.exc.append((s2, o2))
            else:
                outs.append((s2, o if o2 is NORMAL else o2))
        return outs

    EXC_TREE = {'Exception': ('Exception', 'BaseException'), 'BaseException': ('BaseException',)}

    def handler_matches(self, h, cls):
        if h.type is None:
            return True
        names = [t.id for t in (h.type.elts if isinstance(h.type, ast.Tuple) else [h.type]) if isinstance(t, ast.Name)]
        if len(names) != (len(h.type.elts) if isinstance(h.type, ast.Tuple) else 1):
            raise Unsupported('except clause with a computed class')
        bases = self.EXC_TREE.get(cls, (cls, 'Exception', 'BaseException'))
        return any(nm in bases for nm in names)

    def try_exit(self, n, s, kind, thrown=None):
        """Leave the try statement `n` from its body: normally, or with an exception of class `kind`."""
        if kind == 'normal':
            outs = []
            for s2, o2 in (self.ex_block(n.orelse, s) if n.orelse else [(s, NORMAL)]):
                outs += self.leave_try(n, s2, o2)
            return outs
        raised = thrown if thrown is not None else ('raise', kind, 'thrown into the generator', getattr(n, 'lineno', 0))
        for h in n.handlers:
            if self.handler_matches(h, kind):
                saved_exc = self.exc
                self.exc = []
                prev = s.ghost.get('active_exc')
                s.ghost['active_exc'] = kind
                res = self.ex_block(h.body, s)
                rethrown = self.exc
                self.exc = saved_exc
                outs = []
                for s2, o2 in res:
                    s2.ghost['active_exc'] = prev
                    outs += self.leave_try(n, s2, o2)
                for s2, o2 in rethrown:
                    s2.ghost['active_exc'] = prev
                    outs += self.leave_try(n, s2, o2)
                return outs
        return self.leave_try(n, s, raised)

    def leave_try(self, n, s, o):
        outs = []
        saved_exc = self.exc
        self.exc = []
        res = self.ex_block(n.finalbody, s)
        thrown = self.exc
        self.exc = saved_exc
        for s2, o2 in res:
            outs.append((s2, o if o2 is NORMAL else o2))
        outs += thrown
        return outs

    def s_FunctionDef(self, n, st):
        st.env.vars[n.name] = FuncV(n, st.env, n.name)
        return [(st, NORMAL)]

    def s_Import(self, n, st):
        return [(st, NORMAL)]

    s_ImportFrom = s_Import

    # ---- running a function -----------------------------------------------------------------------------------------
    def run(self, name: str, contract, label=''):
        fn = self.funcs[name]
        self.fn = f'{self.path}::{name}{label}'
        self.cur = contract
        self.exc = []
        self.names = {}
        st = PState()
        contract.setup(self, st, fn)
        entry = st.clone()
        outs = self.ex_block(fn.body, st) + self.exc
        self.exc = []
        normal = 0
        for s, o in outs:
            if o is NORMAL or o[0] == 'return':
                normal += 1
                ret = o[1] if o is not NORMAL else PYNONE
                for nm, e in contract.post(self, s, entry, ret):
                    self.oblige(s, 'III', f'post:{nm}', e, fn.lineno)
            elif o[0] == 'raise':
                allowed = contract.raises(self, s, entry)
                cls = o[1]
                if cls not in allowed:
                    self.oblige(s, 'III', f'raises-only-documented:{cls}', z3.BoolVal(False), o[3])
                elif allowed[cls] is not None:
                    self.oblige(s, 'III', f'raises:{cls}-only-when', allowed[cls], o[3])
                for nm, e in contract.post_exc(self, s, entry, cls):
                    self.oblige(s, 'IV', f'on-exception:{nm}', e, fn.lineno)
            elif o[0] == 'yield-in-try':
                normal += 1
                contract.at_yield(self, s, entry, o[1])
            else:
                raise Unsupported(f'function ended with {o}')
        return normal
