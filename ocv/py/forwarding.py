"""Option-forwarding obligations (class IV, decided syntactically on the real AST).

Every function of optree/ops.py and optree/integration/*.py that has some of the traversal options
(is_leaf, none_is_leaf, namespace) as parameters must hand *its own* option values to every optree function it calls that
accepts them - by keyword `opt=opt`, or in the documented position for the `_C.*` engine bindings.  This is the frame
condition behind "all traversal entry points agree" (C03) and behind every derived operation that flattens more than once
(map, broadcast, transpose, ravel): a call that drops or swaps an option silently flattens with different rules.
A call site that deliberately does not forward an option must be listed in ALLOW with the reason.
"""
from __future__ import annotations

import ast
from pathlib import Path

from .. import build as B
from ..result import Obligation

OPTS = ('is_leaf', 'none_is_leaf', 'namespace')
# positional layouts of the engine bindings: index of each option among the call's positional arguments
C_LAYOUT = {
    'flatten': {'is_leaf': 1, 'none_is_leaf': 2, 'namespace': 3},
    'flatten_with_path': {'is_leaf': 1, 'none_is_leaf': 2, 'namespace': 3},
    'PyTreeIter': {'is_leaf': 1, 'none_is_leaf': 2, 'namespace': 3},
    'is_leaf': {'is_leaf': 1, 'none_is_leaf': 2, 'namespace': 3},
    'all_leaves': {'is_leaf': 1, 'none_is_leaf': 2, 'namespace': 3},
    'make_from_collection': {'none_is_leaf': 1, 'namespace': 2},
    'make_leaf': {'none_is_leaf': 0, 'namespace': 1},
    'make_none': {'none_is_leaf': 0, 'namespace': 1},
}
ALLOW = {
    # (caller, callee, option): reason
    ('prefix_errors', 'tree_flatten_one_level', 'is_leaf'):
        'prefix_errors tests is_leaf itself before expanding a node one level (the one-level expansion of a non-leaf)',
}
MODULES = ['optree/ops.py', 'optree/integration/numpy.py', 'optree/integration/jax.py', 'optree/integration/torch.py']


def _sig(tree):
    out = {}
    for n in ast.walk(tree):
        if isinstance(n, ast.FunctionDef):
            params = [a.arg for a in n.args.posonlyargs + n.args.args + n.args.kwonlyargs]
            out.setdefault(n.name, [o for o in OPTS if o in params])
    return out


def check(repo: Path = None) -> list[Obligation]:
    repo = repo or B.REPO
    ops_tree = ast.parse((repo / 'optree/ops.py').read_text())
    ops_sig = _sig(ops_tree)
    obs: list[Obligation] = []
    for mod in MODULES:
        path = repo / mod
        if not path.exists():
            obs.append(Obligation(id=f'{mod}::file-exists', function=mod, cls='X', status='unknown', detail='module missing'))
            continue
        tree = ast.parse(path.read_text())
        sig = dict(ops_sig)
        sig.update(_sig(tree))
        counts: dict[str, int] = {}
        for f in [n for n in tree.body if isinstance(n, ast.FunctionDef)]:
            have = [o for o in OPTS if o in [a.arg for a in f.args.posonlyargs + f.args.args + f.args.kwonlyargs]]
            if not have:
                continue
            # an option name that is rebound inside the caller (assignment, nested parameter, loop target, ...) no longer
            # denotes the caller's argument: forwarding of that option is then undecided syntactically
            rebound = {n.id for n in ast.walk(f) if isinstance(n, ast.Name) and isinstance(n.ctx, (ast.Store, ast.Del))}
            rebound |= {a.arg for g in ast.walk(f) if isinstance(g, (ast.FunctionDef, ast.Lambda)) and g is not f
                        for a in g.args.posonlyargs + g.args.args + g.args.kwonlyargs}
            for c in ast.walk(f):
                if not isinstance(c, ast.Call):
                    continue
                fn = c.func
                callee, layout = None, None
                if isinstance(fn, ast.Attribute) and isinstance(fn.value, ast.Name) and fn.value.id == '_C' and fn.attr in C_LAYOUT:
                    callee, layout = '_C.' + fn.attr, C_LAYOUT[fn.attr]
                elif isinstance(fn, ast.Name) and sig.get(fn.id):
                    callee = fn.id
                elif isinstance(fn, ast.Attribute) and isinstance(fn.value, ast.Name) and fn.value.id in ('ops', 'optree', 'pytree') \
                        and sig.get(fn.attr):
                    callee = fn.attr
                if callee is None:
                    continue
                accepted = list(layout) if layout else sig[callee.split('.')[-1]]
                kws = {k.arg: k.value for k in c.keywords}
                for o in accepted:
                    if o not in have:
                        continue
                    v = kws.get(o)
                    if v is None and layout is not None and layout[o] < len(c.args):
                        v = c.args[layout[o]]
                    ok = isinstance(v, ast.Name) and v.id == o
                    base = f'{mod}::{f.name}::IV::forwards-{o}-to-{callee}'
                    k = counts.get(base, 0)
                    counts[base] = k + 1
                    oid = base if k == 0 else f'{base}#{k}'
                    reason = ALLOW.get((f.name, callee, o))
                    if o in rebound:
                        obs.append(Obligation(id=oid, function=f'{mod}::{f.name}', cls='IV', status='unknown', backend='syntactic',
                                              source=f'L{c.lineno}', detail=f'{o} is rebound inside {f.name}'))
                        continue
                    if not ok and reason:
                        obs.append(Obligation(id=oid, function=f'{mod}::{f.name}', cls='IV', status='discharged',
                                              backend='syntactic(allow-listed)', detail=reason, source=f'L{c.lineno}'))
                        continue
                    obs.append(Obligation(
                        id=oid, function=f'{mod}::{f.name}', cls='IV', status='discharged' if ok else 'failed',
                        backend='syntactic', source=f'L{c.lineno}',
                        detail='' if ok else f'{f.name} calls {callee} at line {c.lineno} with {o}='
                                             f'{ast.unparse(v) if v is not None else "<default>"} instead of its own {o}'))
    obs += check_registry(repo)
    return obs


def check_registry(repo: Path) -> list[Obligation]:
    """register_pytree_node_class (optree/registry.py) is a thin wrapper: every decorator it returns
    (functools.partial of itself) and its final call of register_pytree_node must carry the caller's path_entry_type and a
    namespace.  path_entry_type is re-bound once, to the class default, only when it is None - that rebinding is the
    documented defaulting rule and does not make the forwarding undecided."""
    mod = 'optree/registry.py'
    path = repo / mod
    obs: list[Obligation] = []
    if not path.exists():
        return [Obligation(id=f'{mod}::file-exists', function=mod, cls='X', status='unknown', detail='module missing')]
    tree = ast.parse(path.read_text())
    defs = [n for n in tree.body if isinstance(n, ast.FunctionDef) and n.name == 'register_pytree_node_class']
    f = defs[-1] if defs else None                 # the implementation follows its @overload stubs
    if f is None:
        return [Obligation(id=f'{mod}::register_pytree_node_class::function-exists', function=mod, cls='X', status='unknown',
                           detail='function missing (contract drift)')]
    counts: dict[str, int] = {}
    for c in ast.walk(f):
        if not isinstance(c, ast.Call):
            continue
        fn = c.func
        target = None
        if isinstance(fn, ast.Attribute) and fn.attr == 'partial' and c.args and isinstance(c.args[0], ast.Name) \
                and c.args[0].id == 'register_pytree_node_class':
            target = 'partial(register_pytree_node_class)'
        elif isinstance(fn, ast.Name) and fn.id in ('register_pytree_node', 'register_pytree_node_class'):
            target = fn.id
        if target is None:
            continue
        kws = {k.arg: k.value for k in c.keywords}
        for o, accept in (('path_entry_type', ('path_entry_type',)), ('namespace', ('namespace', 'cls'))):
            v = kws.get(o)
            ok = isinstance(v, ast.Name) and v.id in accept
            base = f'{mod}::register_pytree_node_class::IV::forwards-{o}-to-{target}'
            k = counts.get(base, 0)
            counts[base] = k + 1
            obs.append(Obligation(id=base if k == 0 else f'{base}#{k}', function=f'{mod}::register_pytree_node_class', cls='IV',
                                  status='discharged' if ok else 'failed', backend='syntactic', source=f'L{c.lineno}',
                                  detail='' if ok else f'register_pytree_node_class builds {target} at line {c.lineno} with {o}='
                                                       f'{ast.unparse(v) if v is not None else "<not passed>"}'))
    if not obs:
        obs.append(Obligation(id=f'{mod}::register_pytree_node_class::IV::has-forwarding-sites', function=mod, cls='IV', status='failed',
                              backend='syntactic', detail='no partial / register_pytree_node call found'))
    return obs


if __name__ == '__main__':
    obs = check()
    bad = [o for o in obs if o.status != 'discharged']
    for o in bad:
        print('FAIL', o.id, o.detail)
    print(len(obs), 'forwarding obligations,', len(bad), 'failed')
