"""Sidecar contracts of Python functions (pyvc)."""
from __future__ import annotations

import ast

import z3

from ..cxx import model as M
from ..cxx.model import EMPTY, NULL, PYNONE, Bool, Int, Ref, Str, fresh
from .engine import (GLOBAL_NS, BoundV, BuiltinV, FuncV, OpaqueV, SeqV, StructV, TupV, PState, Unsupported, is_class, is_str,
                     is_z3, str_of, NORMAL)
from .reg import pycontract


class PyContract:
    module = ''
    function = ''

    def setup(self, eng, st, fn):
        a = fn.args
        for p in a.posonlyargs + a.args + a.kwonlyargs:
            st.env.vars[p.arg] = self.param(eng, st, p.arg)

    def param(self, eng, st, name):
        return z3.Const(name, Ref)

    def post(self, eng, st, entry, ret):
        return []

    def raises(self, eng, st, entry):
        return {}

    def post_exc(self, eng, st, entry, cls):
        return []

    def at_yield(self, eng, st, entry, finalbody):
        raise Unsupported('yield')

    # shared vocabulary -----------------------------------------------------------------------------------------
    def global_name(self, eng, st, name):
        if name.endswith('__GLOBAL_NAMESPACE') or name == 'GLOBAL_NAMESPACE':
            return GLOBAL_NS
        if name in ('_C', 'inspect', 'dataclasses', 'contextlib', 'sys'):
            return OpaqueV('module:' + name)
        if name.endswith('__REGISTRY_LOCK'):
            return OpaqueV('lock:__REGISTRY_LOCK')
        return None


def ns_str(v):
    """The std::string the binding receives for a Python namespace argument."""
    if is_z3(v) and v.sort() == Str:
        return v
    return str_of(v)


# ======================================================================================================================
# C13: registry.dict_insertion_ordered

OmegaSort = z3.ArraySort(Str, Bool)


@pycontract
class DictInsertionOrdered(PyContract):
    """Hoare triple  {Omega = O0}  with dict_insertion_ordered(mode, namespace=N): body  {Omega = O0}
    for every body that itself leaves Omega unchanged (or raises); inside the block Omega = O0[ns := bool(mode)].
    The engine primitives are used through their *proved* C++ contracts (IsDictInsertionOrdered / SetDictInsertionOrdered)."""
    module = 'optree/registry.py'
    function = 'dict_insertion_ordered'

    def setup(self, eng, st, fn):
        super().setup(eng, st, fn)
        st.ghost['omega'] = z3.Const('Omega0', OmegaSort)

    def ns_ok(self, ns):
        return z3.Or(ns == GLOBAL_NS, is_str(ns))

    def call(self, eng, st, f, args, kwargs, n, stars):
        if isinstance(f, BoundV) and isinstance(f.obj, OpaqueV) and f.obj.tag == 'module:_C':
            line = n.lineno
            if 'lock:__REGISTRY_LOCK' not in st.ghost['locks']:
                eng.oblige(st, 'IV', f'lockset:_C.{f.name}-under-__REGISTRY_LOCK', z3.BoolVal(False), line)
            om = st.ghost['omega']
            if f.name == 'is_dict_insertion_ordered':
                ns = ns_str(args[0])
                inherit = kwargs.get('inherit_global_namespace', args[1] if len(args) > 1 else z3.BoolVal(True))
                return [(st, z3.Or(z3.Select(om, ns), z3.And(eng.truth(st, inherit), z3.Select(om, EMPTY))))]
            if f.name == 'set_dict_insertion_ordered':
                mode, ns = eng.truth(st, args[0]), ns_str(args[1])
                st.ghost['omega'] = z3.Store(om, ns, mode)
                return [(st, PYNONE)]
        return None

    def effective_ns(self, entry):
        ns = entry.env.get('namespace')
        return z3.If(ns == GLOBAL_NS, EMPTY, str_of(ns))

    def raises(self, eng, st, entry):
        ns = entry.env.get('namespace')
        return {'TypeError': z3.Not(self.ns_ok(ns)),
                'ValueError': z3.And(is_str(ns), str_of(ns) == EMPTY)}

    def post_exc(self, eng, st, entry, cls):
        return [('mode-set-unchanged-when-the-arguments-are-rejected', st.ghost['omega'] == entry.ghost['omega'])]

    def at_yield(self, eng, st, entry, resume):
        o0, o1 = entry.ghost['omega'], st.ghost['omega']
        ns = self.effective_ns(entry)
        mode = eng.truth(st, entry.env.get('mode'))
        line = 0
        eng.oblige(st, 'III', 'enter:arguments-were-valid', z3.And(self.ns_ok(entry.env.get('namespace')),
                                                                   z3.Not(z3.And(is_str(entry.env.get('namespace')),
                                                                                 str_of(entry.env.get('namespace')) == EMPTY))), line)
        eng.oblige(st, 'III', 'enter:only-the-given-namespace-is-switched', o1 == z3.Store(o0, ns, mode), line)
        eng.oblige(st, 'III', 'enter:prev-is-the-non-inherited-mode-of-the-namespace',
                   eng.truth(st, st.env.get('prev')) == z3.Select(o0, ns), line)
        eng.oblige(st, 'IV', 'enter:lock-released-before-the-body-runs', z3.BoolVal(st.ghost['locks'] == ()), line)
        # the with-body: any code that preserves Omega (induction hypothesis for nested blocks).  It may end normally, with an
        # exception that is an Exception, or with one that is only a BaseException (KeyboardInterrupt, GeneratorExit,
        # SystemExit): the generator is resumed accordingly from a state with Omega = o1 and must restore Omega in all cases
        for kind, label in (('normal', 'normal-exit'), ('Exception', 'exception-exit'), ('BaseException', 'base-exception-exit')):
            outs = resume(st.clone(), kind)
            eng.oblige(st, 'III', f'exit:{label}:generator-terminates-after-the-body', z3.BoolVal(len(outs) >= 1), line)
            for s2, o in outs:
                if kind != 'normal':
                    eng.oblige(s2, 'III', f'exit:{label}:the-exception-propagates',
                               z3.BoolVal(o is not NORMAL and o[0] == 'raise' and o[1] == kind), line)
                eng.oblige(s2, 'III', f'exit:{label}:mode-set-restored-exactly', s2.ghost['omega'] == o0, line)
                eng.oblige(s2, 'IV', f'exit:{label}:lock-released', z3.BoolVal(s2.ghost['locks'] == ()), line)


# ======================================================================================================================
# C12: registry.register_pytree_node / unregister_pytree_node  (engine call, then mirror update, under one lock)

class RegistryPy(PyContract):
    module = 'optree/registry.py'

    def setup(self, eng, st, fn):
        super().setup(eng, st, fn)
        # engine view E and Python mirror M of the custom registrations: global (by type) and named (namespace, type)
        for nm in ('Eg', 'Mg'):
            st.ghost[nm] = z3.Const(nm + '0', z3.ArraySort(Ref, Bool))
        for nm in ('En', 'Mn'):
            st.ghost[nm] = z3.Const(nm + '0', z3.ArraySort(Str, z3.ArraySort(Ref, Bool)))
        c, s = z3.Const('c!mi', Ref), z3.Const('s!mi', Str)
        # MI: the mirror holds exactly the custom registrations of the engine
        st.facts += [z3.ForAll([c], z3.Select(st.ghost['Eg'], c) == z3.Select(st.ghost['Mg'], c)),
                     z3.ForAll([s, c], z3.Select(z3.Select(st.ghost['En'], s), c) == z3.Select(z3.Select(st.ghost['Mn'], s), c))]

    def call(self, eng, st, f, args, kwargs, n, stars):
        line = n.lineno
        if isinstance(f, BoundV) and isinstance(f.obj, OpaqueV):
            mod = f.obj.tag
            if mod == 'module:inspect' and f.name == 'isclass':
                return [(st, is_class(args[0]))]
            if mod == 'module:_C' and f.name in ('register_node', 'unregister_node'):
                if 'lock:__REGISTRY_LOCK' not in st.ghost['locks']:
                    eng.oblige(st, 'IV', f'lockset:_C.{f.name}-under-__REGISTRY_LOCK', z3.BoolVal(False), line)
                cls = args[0]
                ns = ns_str(args[-1])
                # proved C++ contract (Register / Unregister): either raises with the registry unchanged, or changes
                # exactly the key (ns, cls) in the engine
                s_exc = st.clone()
                eng.throw(s_exc, 'EngineError', line, 'from _C.' + f.name)
                Eg, En = st.ghost['Eg'], st.ghost['En']
                present = z3.If(ns == EMPTY, z3.Select(Eg, cls), z3.Select(z3.Select(En, ns), cls))
                if f.name == 'register_node':
                    eng.assume(st, z3.Not(present))
                    st.ghost['Eg'] = z3.If(ns == EMPTY, z3.Store(Eg, cls, True), Eg)
                    st.ghost['En'] = z3.If(ns != EMPTY, z3.Store(En, ns, z3.Store(z3.Select(En, ns), cls, True)), En)
                else:
                    eng.assume(st, present)
                    st.ghost['Eg'] = z3.If(ns == EMPTY, z3.Store(Eg, cls, False), Eg)
                    st.ghost['En'] = z3.If(ns != EMPTY, z3.Store(En, ns, z3.Store(z3.Select(En, ns), cls, False)), En)
                return [(st, PYNONE)]
        if isinstance(f, BuiltinV) and f.name == 'issubclass':
            return [(st, z3.Function('py_issubclass', Ref, Ref, Bool)(args[0], args[1]))]
        if isinstance(f, OpaqueV) and f.tag == 'class:PyTreeNodeRegistryEntry':
            return [(st, StructV('entry', (('type', args[0]), ('namespace', kwargs.get('namespace')))))]
        if isinstance(f, BoundV) and isinstance(f.obj, OpaqueV) and f.obj.tag == 'mirror' and f.name == 'pop':
            key = args[0]
            has = self.mirror_has(st, key)
            s_bad = st.clone()
            eng.assume(s_bad, z3.Not(has))
            if eng.feasible(s_bad):
                eng.throw(s_bad, 'KeyError', line)
            eng.assume(st, has)
            self.mirror_set(st, key, False)
            return [(st, z3.Const('popped_entry', Ref))]
        return None

    def global_name(self, eng, st, name):
        if name == '_NODETYPE_REGISTRY':
            return OpaqueV('mirror')
        if name == 'PyTreeNodeRegistryEntry':
            return OpaqueV('class:PyTreeNodeRegistryEntry')
        if name == 'PyTreeEntry':
            return z3.Const('class_PyTreeEntry', Ref)
        return super().global_name(eng, st, name)

    def key_parts(self, key):
        if isinstance(key, TupV):
            return ns_str(key.items[0]), key.items[1]
        return None, key

    def mirror_has(self, st, key):
        ns, cls = self.key_parts(key)
        if ns is None:
            return z3.Select(st.ghost['Mg'], cls)
        return z3.Select(z3.Select(st.ghost['Mn'], ns), cls)

    def mirror_set(self, st, key, val):
        ns, cls = self.key_parts(key)
        if ns is None:
            st.ghost['Mg'] = z3.Store(st.ghost['Mg'], cls, val)
        else:
            Mn = st.ghost['Mn']
            st.ghost['Mn'] = z3.Store(Mn, ns, z3.Store(z3.Select(Mn, ns), cls, val))

    def store_subscript(self, eng, st, base, key, v):
        if isinstance(base, OpaqueV) and base.tag == 'mirror':
            if 'lock:__REGISTRY_LOCK' not in st.ghost['locks']:
                eng.oblige(st, 'IV', 'lockset:_NODETYPE_REGISTRY-written-under-__REGISTRY_LOCK', z3.BoolVal(False), 0)
            self.mirror_set(st, key, True)
            return True
        return False

    def MI(self, st):
        c, s = z3.Const('c!mi2', Ref), z3.Const('s!mi2', Str)
        return [('mirror-invariant:global', z3.ForAll([c], z3.Select(st.ghost['Eg'], c) == z3.Select(st.ghost['Mg'], c))),
                ('mirror-invariant:named', z3.ForAll([s, c], z3.Select(z3.Select(st.ghost['En'], s), c) ==
                                                     z3.Select(z3.Select(st.ghost['Mn'], s), c)))]

    def unchanged(self, st, entry):
        return z3.And(*[st.ghost[k] == entry.ghost[k] for k in ('Eg', 'En', 'Mg', 'Mn')])

    def ns_valid(self, ns):
        return z3.And(z3.Or(ns == GLOBAL_NS, is_str(ns)), z3.Not(z3.And(is_str(ns), str_of(ns) == EMPTY)))

    def eff(self, entry):
        ns = entry.env.get('namespace')
        return z3.If(ns == GLOBAL_NS, EMPTY, str_of(ns))

    def only_key_changed(self, st, entry, now_present):
        ns, cls = self.eff(entry), entry.env.get('cls')
        c, s = z3.Const('c!f', Ref), z3.Const('s!f', Str)
        out = []
        for g, nmap in (('Eg', 'En'), ('Mg', 'Mn')):
            G0, G1, N0, N1 = entry.ghost[g], st.ghost[g], entry.ghost[nmap], st.ghost[nmap]
            out.append((f'{g}:only-the-key-changes', z3.ForAll([c], z3.Implies(z3.Or(c != cls, ns != EMPTY),
                                                                               z3.Select(G1, c) == z3.Select(G0, c)))))
            out.append((f'{nmap}:only-the-key-changes', z3.ForAll([s, c], z3.Implies(
                z3.Or(c != cls, s != ns, ns == EMPTY), z3.Select(z3.Select(N1, s), c) == z3.Select(z3.Select(N0, s), c)))))
            out.append((f'{g}/{nmap}:key-now-{"present" if now_present else "absent"}',
                        z3.If(ns == EMPTY, z3.Select(G1, cls), z3.Select(z3.Select(N1, ns), cls)) == now_present))
        return out


@pycontract
class RegisterPytreeNode(RegistryPy):
    function = 'register_pytree_node'

    def post(self, eng, st, entry, ret):
        return [('returns-the-class', ret == entry.env.get('cls')),
                ('arguments-were-valid', z3.And(is_class(entry.env.get('cls')), self.ns_valid(entry.env.get('namespace')))),
                ('lock-released', z3.BoolVal(st.ghost['locks'] == ()))] + self.MI(st) + self.only_key_changed(st, entry, True)

    def raises(self, eng, st, entry):
        ns = entry.env.get('namespace')
        return {'TypeError': None, 'ValueError': z3.And(is_str(ns), str_of(ns) == EMPTY), 'EngineError': None}

    def post_exc(self, eng, st, entry, cls):
        return [('atomic:engine-and-mirror-unchanged-when-the-call-raises', self.unchanged(st, entry)),
                ('lock-released', z3.BoolVal(st.ghost['locks'] == ()))]


@pycontract
class UnregisterPytreeNode(RegistryPy):
    function = 'unregister_pytree_node'

    def post(self, eng, st, entry, ret):
        return [('lock-released', z3.BoolVal(st.ghost['locks'] == ()))] + self.MI(st) + self.only_key_changed(st, entry, False)

    def raises(self, eng, st, entry):
        ns = entry.env.get('namespace')
        # KeyError from the mirror is NOT allowed: with the mirror invariant the key exists whenever the engine call succeeded
        return {'TypeError': None, 'ValueError': z3.And(is_str(ns), str_of(ns) == EMPTY), 'EngineError': None}

    def post_exc(self, eng, st, entry, cls):
        return [('atomic:engine-and-mirror-unchanged-when-the-call-raises', self.unchanged(st, entry)),
                ('lock-released', z3.BoolVal(st.ghost['locks'] == ()))]


# ======================================================================================================================
# C10: ops.tree_transpose  (index law for all m, n >= 1)

spec_num_leaves = z3.Function('spec_num_leaves', Ref, Int)
spec_nil = z3.Function('spec_none_is_leaf', Ref, Bool)
spec_ns = z3.Function('spec_namespace', Ref, Str)
leaf_of = z3.Function('leaf_of_flatten', Ref, Int, Ref)      # k-th leaf of flatten(tree, options) (ghost)


class TreespecVocabulary(PyContract):
    """Treespec objects are opaque references with the observers proved on the C++ side (getters, Compose, Unflatten)."""
    count_exc = 'ValueError'      # class under which a leaf-count mismatch of unflatten is reported to the contract

    def attribute(self, eng, st, base, attr):
        if is_z3(base) and base.sort() == Ref:
            if attr == 'num_leaves':
                st.facts.append(spec_num_leaves(base) >= 0)
                return spec_num_leaves(base)
            if attr == 'none_is_leaf':
                return spec_nil(base)
            if attr == 'namespace':
                return spec_ns(base)
            if attr in ('unflatten', 'compose', 'flatten_up_to'):
                return BoundV(base, attr)
        return None

    def unflatten(self, eng, st, spec, seq, line):
        """Contract of PyTreeSpec.unflatten (proved: UnflattenImpl): pulls the leaves in order; ValueError unless their number
        is num_leaves; result = the tree of `spec` over exactly these leaves (kept symbolic as a structured value)."""
        seq = eng.to_seq(st, seq)
        if seq.lazy is not None:
            kind, f, seqs = seq.lazy
            if not (isinstance(f, BoundV) and f.name == 'unflatten' and len(seqs) == 1):
                raise Unsupported('lazy map of an unknown callable')
            inner_spec, src = f.obj, seqs[0]
            # every element is produced by inner_spec.unflatten(src[j]): its own leaf-count requirement
            j = fresh('j_elem', Int)
            s_chk = st.clone()
            eng.assume(s_chk, z3.And(0 <= j, j < src.len))
            col = eng.to_seq(s_chk, src.at(j))
            eng.oblige(s_chk, 'III', 'map-unflatten:every-column-has-num_leaves-items', col.len == spec_num_leaves(inner_spec), line)
            seq = SeqV(src.len, lambda i, src=src, inner_spec=inner_spec: StructV(
                'unflat', (('spec', inner_spec), ('seq', eng.to_seq(st, src.at(i))))))
        ok = seq.len == spec_num_leaves(spec)
        s_bad = st.clone()
        eng.assume(s_bad, z3.Not(ok))
        if eng.feasible(s_bad):
            eng.throw(s_bad, self.count_exc, line, 'leaf count')
        eng.assume(st, ok)
        return StructV('unflat', (('spec', spec), ('seq', seq)))


@pycontract
class TreeTranspose(TreespecVocabulary):
    module = 'optree/ops.py'
    function = 'tree_transpose'

    def setup(self, eng, st, fn):
        super().setup(eng, st, fn)
        self.flat_len = z3.Int('num_leaves_of_tree')
        st.facts.append(self.flat_len >= 0)

    def call(self, eng, st, f, args, kwargs, n, stars):
        line = n.lineno
        if isinstance(f, FuncV) and f.name == 'tree_flatten':
            tree = args[0]
            eng.oblige(st, 'III', 'flatten:uses-the-outer-none_is_leaf',
                       eng.truth(st, kwargs['none_is_leaf']) == spec_nil(st.env.get('outer_treespec')), line)
            o, i = st.env.get('outer_treespec'), st.env.get('inner_treespec')
            eng.oblige(st, 'III', 'flatten:uses-the-outer-namespace-or-else-the-inner',
                       kwargs['namespace'] == z3.If(spec_ns(o) != EMPTY, spec_ns(o), spec_ns(i)), line)
            eng.oblige(st, 'III', 'flatten:forwards-is_leaf', eng.identical(kwargs['is_leaf'], st.env.get('is_leaf')), line)
            t = z3.Const('treespec_of_tree', Ref)
            st.facts.append(spec_num_leaves(t) == self.flat_len)
            leaves = SeqV(self.flat_len, lambda k, tree=tree: leaf_of(tree, k))
            s_exc = st.clone()
            eng.throw(s_exc, 'FlattenError', line)
            return [(st, TupV((leaves, t)))]
        if isinstance(f, BoundV) and f.name == 'compose':
            a, b = f.obj, args[0]
            eng.oblige(st, 'III', 'compose:operands-are-compatible',
                       z3.And(spec_nil(a) == spec_nil(b), z3.Not(z3.And(spec_ns(a) != EMPTY, spec_ns(b) != EMPTY,
                                                                        spec_ns(a) != spec_ns(b)))), line)
            return [(st, z3.Const('composed_treespec', Ref))]
        if isinstance(f, BoundV) and f.name == 'unflatten':
            return [(st, self.unflatten(eng, st, f.obj, args[0], line))]
        return None

    def sizes(self, entry):
        o, i = entry.env.get('outer_treespec'), entry.env.get('inner_treespec')
        return o, i, spec_num_leaves(o), spec_num_leaves(i)

    def raises(self, eng, st, entry):
        o, i, m, n = self.sizes(entry)
        conflict = z3.And(spec_ns(o) != EMPTY, spec_ns(i) != EMPTY, spec_ns(o) != spec_ns(i))
        return {'ValueError': z3.Or(spec_nil(o) != spec_nil(i), m == 0, n == 0, conflict),
                'TypeError': self.flat_len != m * n,
                'FlattenError': None}

    def post(self, eng, st, entry, ret):
        o, i, m, n = self.sizes(entry)
        tree = entry.env.get('tree')
        out = [('no-error-implies-valid-arguments', z3.And(spec_nil(o) == spec_nil(i), m > 0, n > 0, self.flat_len == m * n))]
        if not (isinstance(ret, StructV) and ret.kind == 'unflat'):
            return out + [('result-is-inner-unflatten', z3.BoolVal(False))]
        out.append(('result-has-the-inner-structure', ret.get('spec') == i))
        seq = ret.get('seq')
        out.append(('one-subtree-per-inner-leaf', seq.len == n))
        j, k = z3.Ints('j_inner i_outer')
        elem = seq.at(j)
        if not (isinstance(elem, StructV) and elem.kind == 'unflat'):
            return out + [('subtrees-are-outer-unflatten', z3.BoolVal(False))]
        rng = z3.And(0 <= j, j < n, 0 <= k, k < m)
        out.append(('each-subtree-has-the-outer-structure', z3.Implies(rng, elem.get('spec') == o)))
        col = elem.get('seq')
        out.append(('each-subtree-has-one-value-per-outer-leaf', z3.Implies(rng, col.len == m)))
        out.append(('value-at-(inner j, outer i)-is-input-value-at-(outer i, inner j)',
                    z3.Implies(rng, col.at(k) == leaf_of(tree, k * n + j))))
        return out


# ======================================================================================================================
# C05 / C09 / C10: the map family of optree/ops.py against the proved engine contracts
#
# Vocabulary (uninterpreted; each symbol is the *proved* C++ contract read at the Python boundary):
#   treespec_of(tree, is_leaf, none_is_leaf, namespace)   the treespec _C.flatten / tree_structure returns
#   leaf_of(tree, k)                                       k-th leaf of that flatten (k < num_leaves)
#   path_of(tree, k) / accessor_of(spec, k)                k-th path / accessor (Paths / Accessors: one per leaf, in leaf order)
#   up_to(spec, tree, k)                                   k-th subtree of spec.flatten_up_to(tree) (FlattenUpTo: exactly
#                                                          num_leaves(spec) results, slot k = leaf position k)
# A call of the user function is a structured value  call(f, <args>)  - what the function computes is arbitrary.

treespec_of = z3.Function('treespec_of', Ref, Ref, Bool, Str, Ref)
path_of = z3.Function('path_of_flatten', Ref, Int, Ref)
accessor_of = z3.Function('accessor_of', Ref, Int, Ref)
up_to = z3.Function('flatten_up_to', Ref, Ref, Int, Ref)
rest_at = z3.Function('rests_at', Int, Ref)


class MapVocabulary(TreespecVocabulary):
    module = 'optree/ops.py'
    first = ()                    # extra leading argument sequences of the user function: 'path' | 'accessor'
    count_exc = 'ValueError(unflatten-leaf-count)'   # never documented: the wrappers must hand unflatten exactly num_leaves values
    returns_tree = False          # the in-place variants return their first tree argument

    def setup(self, eng, st, fn):
        super().setup(eng, st, fn)
        if fn.args.vararg is not None:
            self.R = z3.Int('number_of_rests')
            st.facts.append(self.R >= 0)
            st.env.vars[fn.args.vararg.arg] = SeqV(self.R, lambda i: rest_at(i))
        st.ghost['forced'] = ()

    def param(self, eng, st, name):
        if name == 'none_is_leaf':
            return z3.Const(name, Bool)
        return z3.Const(name, Ref)

    def global_name(self, eng, st, name):
        if name in ('itertools', 'functools'):
            return OpaqueV('module:' + name)
        if name == 'deque':
            return BuiltinV('deque')
        return super().global_name(eng, st, name)

    def attribute(self, eng, st, base, attr):
        if is_z3(base) and base.sort() == Ref and attr in ('accessors', 'paths', 'broadcast_to_common_suffix'):
            return BoundV(base, attr)
        return super().attribute(eng, st, base, attr)

    # -- the options of the function under contract ------------------------------------------------------------
    def opts(self, st_or_entry):
        env = st_or_entry.env
        g = lambda nm, d: env.get(nm) if env.lookup(nm) is not None else d
        return g('is_leaf', PYNONE), g('none_is_leaf', z3.BoolVal(False)), g('namespace', EMPTY)

    def flatten_model(self, eng, st, tree, is_leaf, nil, ns, line, what):
        entry_is_leaf, entry_nil, entry_ns = self.opts(self.entry)
        eng.oblige(st, 'III', f'{what}:forwards-is_leaf', eng.identical(is_leaf, entry_is_leaf), line)
        eng.oblige(st, 'III', f'{what}:forwards-none_is_leaf', eng.truth(st, nil) == eng.truth(st, entry_nil), line)
        eng.oblige(st, 'III', f'{what}:forwards-namespace', ns_str(ns) == ns_str(entry_ns), line)
        t = treespec_of(tree, is_leaf if is_z3(is_leaf) else PYNONE, eng.truth(st, nil), ns_str(ns))
        st.facts.append(spec_num_leaves(t) >= 0)
        st.facts.append(spec_nil(t) == eng.truth(st, nil))
        s_exc = st.clone()
        eng.throw(s_exc, 'FlattenError', line)
        return t

    def call(self, eng, st, f, args, kwargs, n, stars):
        line = n.lineno
        if isinstance(f, BoundV) and isinstance(f.obj, OpaqueV) and f.obj.tag == 'module:_C' and f.name in ('flatten', 'flatten_with_path'):
            if len(args) != 4 or kwargs:
                raise Unsupported('engine flatten call shape')
            tree = args[0]
            t = self.flatten_model(eng, st, tree, args[1], args[2], args[3], line, f'_C.{f.name}')
            n_l = spec_num_leaves(t)
            leaves = SeqV(n_l, lambda k, tree=tree: leaf_of(tree, k))
            if f.name == 'flatten':
                return [(st, TupV((leaves, t)))]
            return [(st, TupV((SeqV(n_l, lambda k, tree=tree: path_of(tree, k)), leaves, t)))]
        if isinstance(f, FuncV) and f.name == 'tree_structure':
            t = self.flatten_model(eng, st, args[0], kwargs.get('is_leaf', PYNONE), kwargs.get('none_is_leaf', z3.BoolVal(False)),
                                   kwargs.get('namespace', EMPTY), line, 'tree_structure')
            return [(st, t)]
        if isinstance(f, BoundV) and is_z3(f.obj) and f.obj.sort() == Ref:
            spec = f.obj
            if f.name == 'flatten_up_to':
                s_exc = st.clone()
                eng.throw(s_exc, 'ValueError', line, 'structure mismatch')
                return [(st, SeqV(spec_num_leaves(spec), lambda k, spec=spec, tree=args[0]: up_to(spec, tree, k)))]
            if f.name == 'accessors':
                return [(st, SeqV(spec_num_leaves(spec), lambda k, spec=spec: accessor_of(spec, k)))]
            if f.name == 'unflatten':
                return [(st, self.unflatten(eng, st, spec, args[0], line))]
        if isinstance(f, BoundV) and isinstance(f.obj, OpaqueV) and f.obj.tag == 'module:itertools' and f.name == 'repeat':
            cnt = eng.as_int(args[1])
            eng.oblige(st, 'II', 'repeat:count-non-negative', cnt >= 0, line)
            return [(st, SeqV(cnt, lambda i, x=args[0]: x))]
        if isinstance(f, BuiltinV) and f.name == 'map':
            return [(st, self.map_model(eng, st, args[0], args[1:], stars, line, n))]
        if isinstance(f, BuiltinV) and f.name == 'deque':
            # deque(iterable, maxlen=0): consumes the whole iterable (all calls happen, in order) and keeps nothing
            seq = eng.to_seq(st, args[0])
            st.ghost['forced'] = st.ghost['forced'] + (seq,)
            return [(st, OpaqueV('deque'))]
        return None

    def map_model(self, eng, st, f, plain, stars, line, node=None):
        """map(f, p0, .., *rows, q0, ..): element k = call(f, p0[k], .., rows[0][k], .., q0[k], ..); stops at the shortest
        sequence.  The obligation is that all argument sequences have the same length, so no leaf is dropped silently."""
        if len(stars) > 1:
            raise Unsupported('map with several starred arguments')
        seqs = [eng.to_seq(st, a) for a in plain]
        rows = eng.to_seq(st, stars[0]) if stars else None
        nb = len(seqs)                       # number of plain sequences in front of the starred one
        if rows is not None and node is not None:
            flags = [isinstance(a, ast.Starred) for a in node.args[1:]]
            nb = flags.index(True)
        before, after = seqs[:nb], seqs[nb:]
        if seqs:
            ln = seqs[0].len
        else:
            s0 = st.clone()
            eng.oblige(s0, 'III', 'map:at-least-one-argument-sequence', rows.len >= 1, line)
            ln = eng.to_seq(st, rows.at(z3.IntVal(0))).len
        for k_, p in enumerate(seqs[1:]):
            eng.oblige(st, 'III', f'map:argument-sequence-{k_ + 1}-has-the-common-length', p.len == ln, line)
        if rows is not None:
            i = fresh('i_row', Int)
            s1 = st.clone()
            eng.assume(s1, z3.And(0 <= i, i < rows.len))
            eng.oblige(s1, 'III', 'map:every-starred-sequence-has-the-common-length', eng.to_seq(s1, rows.at(i)).len == ln, line)
        nrows = rows.len if rows is not None else z3.IntVal(0)
        width = z3.IntVal(len(seqs)) + nrows

        def elem(k, f=f):
            def arg(i):
                out = OpaqueV('none')
                if rows is not None:
                    out = eng.to_seq(st, rows.at(i - nb)).at(k)
                for j in range(len(after) - 1, -1, -1):
                    out = eng.ite(i == nb + nrows + j, after[j].at(k), out)
                for j in range(nb - 1, -1, -1):
                    out = eng.ite(i == j, before[j].at(k), out)
                return out
            return StructV('call', (('f', f), ('args', SeqV(width, arg))))
        return SeqV(ln, elem)

    # -- generic postcondition pieces ---------------------------------------------------------------------------------
    def run_hook(self, entry):
        self.entry = entry

    def calls_post(self, eng, entry, seq, T, tree):
        """seq = the sequence of user-function calls; one per leaf of `tree`, in leaf order, on aligned arguments."""
        func = entry.env.get('func')
        n_l = spec_num_leaves(T)
        k, i = z3.Ints('k_leaf i_arg')
        out = [('one-call-per-leaf', seq.len == n_l)]
        el = seq.at(k)
        if not (isinstance(el, StructV) and el.kind == 'call'):
            return out + [('elements-are-calls-of-func', z3.BoolVal(False))]
        rng = z3.And(0 <= k, k < n_l)
        out.append(('calls-the-given-function', z3.Implies(rng, eng.identical(el.get('f'), func))))
        args = el.get('args')
        nf = len(self.first)
        out.append(('argument-count', z3.Implies(rng, args.len == nf + 1 + self.R)))
        for j, what in enumerate(self.first):
            exp = path_of(tree, k) if what == 'path' else accessor_of(T, k)
            out.append((f'argument-{j}-is-the-{what}-of-leaf-k', z3.Implies(rng, args.at(z3.IntVal(j)) == exp)))
        out.append(('leaf-argument-is-the-k-th-leaf-of-tree', z3.Implies(rng, args.at(z3.IntVal(nf)) == leaf_of(tree, k))))
        out.append(('rest-arguments-are-the-aligned-subtrees-of-rests',
                    z3.Implies(z3.And(rng, nf + 1 <= i, i < nf + 1 + self.R),
                               args.at(i) == up_to(T, rest_at(i - nf - 1), k))))
        return out

    def raises(self, eng, st, entry):
        return {'FlattenError': None, 'ValueError': None}


class TreeMapLike(MapVocabulary):
    def setup(self, eng, st, fn):
        super().setup(eng, st, fn)
        self.entry = st.clone()

    def post(self, eng, st, entry, ret):
        tree = entry.env.get('tree')
        is_leaf, nil, ns = self.opts(entry)
        T = treespec_of(tree, is_leaf, eng.truth(st, nil), ns_str(ns))
        if self.returns_tree:
            out = [('returns-the-input-tree', eng.identical(ret, tree)),
                   ('the-map-is-consumed-exactly-once', z3.BoolVal(len(st.ghost['forced']) == 1))]
            if len(st.ghost['forced']) != 1:
                return out
            return out + self.calls_post(eng, entry, st.ghost['forced'][0], T, tree)
        if not (isinstance(ret, StructV) and ret.kind == 'unflat'):
            return [('result-is-unflatten', z3.BoolVal(False))]
        out = [('result-has-the-structure-of-tree', ret.get('spec') == T),
               ('nothing-is-evaluated-eagerly', z3.BoolVal(len(st.ghost['forced']) == 0))]
        return out + self.calls_post(eng, entry, ret.get('seq'), T, tree)


def _mk(name, first=(), returns_tree=False):
    cls = type('C_' + name, (TreeMapLike,), {'function': name, 'first': first, 'returns_tree': returns_tree})
    return pycontract(cls)


_mk('tree_map')
_mk('tree_map_', returns_tree=True)
_mk('tree_map_with_path', first=('path',))
_mk('tree_map_with_path_', first=('path',), returns_tree=True)
_mk('tree_map_with_accessor', first=('accessor',))
_mk('tree_map_with_accessor_', first=('accessor',), returns_tree=True)


# ---- broadcast wrappers (C09) ----------------------------------------------------------------------------------------

bcs_of = z3.Function('broadcast_to_common_suffix', Ref, Ref, Ref)


class BroadcastVocabulary(MapVocabulary):
    """Adds: the proved contract of tree_map at its call sites (modular use), closures evaluated per element, trees built by
    unflatten that are passed on as arguments (named by a fresh reference, remembered in ghost state)."""

    def setup(self, eng, st, fn):
        super().setup(eng, st, fn)
        self.entry = st.clone()
        self.R = z3.IntVal(0)
        st.ghost['trees'] = ()
        self._emitted = set()

    def global_name(self, eng, st, name):
        if name == 'object':
            return BuiltinV('object')
        return super().global_name(eng, st, name)

    def flatten_model(self, eng, st, tree, is_leaf, nil, ns, line, what):
        # the same call site is re-evaluated for every element skolem: keep one copy of its obligations
        if (line, what) in self._emitted:
            saved, eng.vcs = eng.vcs, []
            try:
                return super().flatten_model(eng, st, self.as_ref(st, tree), is_leaf, nil, ns, line, what)
            finally:
                eng.vcs = saved
        self._emitted.add((line, what))
        return super().flatten_model(eng, st, self.as_ref(st, tree), is_leaf, nil, ns, line, what)

    def as_ref(self, st, v):
        if isinstance(v, StructV) and v.kind == 'unflat':
            for r, t in st.ghost['trees']:
                if t is v:
                    return r
            r = fresh('built_tree', Ref)
            st.ghost['trees'] = st.ghost['trees'] + ((r, v),)
            return r
        return v

    def tree_of(self, st, r):
        for r2, t in st.ghost['trees']:
            if r2 is r or (is_z3(r) and r.eq(r2)):
                return t
        return None

    def apply_closure(self, eng, st, f, args, node):
        if not isinstance(f, FuncV):
            return StructV('call', (('f', f), ('args', SeqV(z3.IntVal(len(args)), eng._const_seq(list(args))))))
        s2 = st.clone()
        r = eng.call_function(s2, f, list(args), {}, node)
        if len(r) != 1:
            raise Unsupported('forking closure')
        return r[0][1]

    def call(self, eng, st, f, args, kwargs, n, stars):
        line = n.lineno
        if isinstance(f, BuiltinV) and f.name == 'object':
            return [(st, fresh('sentinel', Ref))]
        if isinstance(f, BoundV) and f.name == 'broadcast_to_common_suffix' and is_z3(f.obj):
            s_exc = st.clone()
            eng.throw(s_exc, 'ValueError', line, 'conflict')
            r = bcs_of(f.obj, args[0])
            st.facts.append(spec_num_leaves(r) >= 0)
            return [(st, r)]
        if isinstance(f, BoundV) and f.name == 'flatten_up_to' and is_z3(f.obj):
            args = [self.as_ref(st, args[0])]
        if isinstance(f, FuncV) and f.name in ('tree_map', 'tree_map_') and not stars:
            # contract of tree_map (proved above): unflatten(T, <func(leaf_k, up_to(T, rest_j, k)...)>_k), T from the options given
            func, tree, rests = args[0], self.as_ref(st, args[1]), [self.as_ref(st, a) for a in args[2:]]
            T = MapVocabulary.flatten_model(self, eng, st, tree, kwargs.get('is_leaf', PYNONE),
                                            kwargs.get('none_is_leaf', z3.BoolVal(False)), kwargs.get('namespace', EMPTY),
                                            line, f.name)
            s_exc = st.clone()
            eng.throw(s_exc, 'ValueError', line, 'structure mismatch')
            seq = SeqV(spec_num_leaves(T), lambda k, T=T, tree=tree, rests=rests, func=func: self.apply_closure(
                eng, st, func, [leaf_of(tree, k)] + [up_to(T, r, k) for r in rests], n))
            if f.name == 'tree_map_':
                st.ghost['forced'] = st.ghost['forced'] + (seq,)
                return [(st, args[1])]
            return [(st, StructV('unflat', (('spec', T), ('seq', seq))))]
        return super().call(eng, st, f, args, kwargs, n, stars)

    def map_model(self, eng, st, f, plain, stars, line, node=None):
        if isinstance(f, FuncV) and not stars:
            seqs = [eng.to_seq(st, a) for a in plain]
            for k_, p in enumerate(seqs[1:]):
                eng.oblige(st, 'III', f'map:argument-sequence-{k_ + 1}-has-the-common-length', p.len == seqs[0].len, line)
            return SeqV(seqs[0].len, lambda k, seqs=seqs, f=f: self.apply_closure(eng, st, f, [s_.at(k) for s_ in seqs], node))
        return super().map_model(eng, st, f, plain, stars, line, node)

    def replicated(self, eng, entry, st, tree_struct, T, src_tree, target_of, tag):
        """tree_struct = unflatten(T, < unflatten(S_k, <x_k, x_k, ..>) >_k) with x_k = k-th leaf of src_tree and
        S_k = treespec (under the caller's options) of target_of(k)."""
        is_leaf, nil, ns = self.opts(entry)
        if not (isinstance(tree_struct, StructV) and tree_struct.kind == 'unflat'):
            return [(f'{tag}:is-built-by-unflatten', z3.BoolVal(False))]
        k, j = z3.Ints('k_leaf j_rep')
        n_l = spec_num_leaves(T)
        rng = z3.And(0 <= k, k < n_l)
        out = [(f'{tag}:has-the-structure-of-its-operand', tree_struct.get('spec') == T),
               (f'{tag}:one-subtree-per-operand-leaf', tree_struct.get('seq').len == n_l)]
        el = tree_struct.get('seq').at(k)
        if not (isinstance(el, StructV) and el.kind == 'unflat'):
            return out + [(f'{tag}:subtrees-are-built-by-unflatten', z3.BoolVal(False))]
        S = treespec_of(target_of(k), is_leaf, eng.truth(st, nil), ns_str(ns))
        out.append((f'{tag}:subtree-k-has-the-structure-of-the-matching-subtree-under-the-callers-options',
                    z3.Implies(rng, el.get('spec') == S)))
        out.append((f'{tag}:subtree-k-has-one-value-per-leaf-of-that-structure', z3.Implies(rng, el.get('seq').len == spec_num_leaves(S))))
        out.append((f'{tag}:every-value-of-subtree-k-is-the-k-th-leaf-of-the-operand',
                    z3.Implies(z3.And(rng, 0 <= j, j < spec_num_leaves(S)), el.get('seq').at(j) == leaf_of(src_tree, k))))
        return out


@pycontract
class TreeBroadcastPrefix(BroadcastVocabulary):
    function = 'tree_broadcast_prefix'

    def post(self, eng, st, entry, ret):
        prefix, full = entry.env.get('prefix_tree'), entry.env.get('full_tree')
        is_leaf, nil, ns = self.opts(entry)
        T = treespec_of(prefix, is_leaf, eng.truth(st, nil), ns_str(ns))
        return self.replicated(eng, entry, st, ret, T, prefix, lambda k: up_to(T, full, k), 'result')


@pycontract
class TreeBroadcastCommon(BroadcastVocabulary):
    function = 'tree_broadcast_common'

    def post(self, eng, st, entry, ret):
        a, b = entry.env.get('tree'), entry.env.get('other_tree')
        is_leaf, nil, ns = self.opts(entry)
        Ta = treespec_of(a, is_leaf, eng.truth(st, nil), ns_str(ns))
        Tb = treespec_of(b, is_leaf, eng.truth(st, nil), ns_str(ns))
        if not (isinstance(ret, TupV) and len(ret.items) == 2):
            return [('returns-a-pair', z3.BoolVal(False))]
        trees = st.ghost['trees']
        out = [('exactly-one-common-tree-is-built', z3.BoolVal(len(trees) == 1))]
        if len(trees) != 1:
            return out
        CT, ct = trees[0]
        C = bcs_of(Ta, Tb)
        # the common suffix is symmetric up to node kinds / key order of positions where both operands have nodes, and such
        # positions are never read through flatten_up_to of an operand's own treespec: either receiver order is accepted
        out.append(('common-tree-has-the-common-suffix-structure-of-the-two-treespecs',
                    z3.Or(ct.get('spec') == C, ct.get('spec') == bcs_of(Tb, Ta))))
        out.append(('common-tree-has-num_leaves-placeholders', ct.get('seq').len == spec_num_leaves(ct.get('spec'))))
        out += self.replicated(eng, entry, st, ret.items[0], Ta, a, lambda k: up_to(Ta, CT, k), 'first')
        out += self.replicated(eng, entry, st, ret.items[1], Tb, b, lambda k: up_to(Tb, CT, k), 'second')
        return out


# ---- tree_transpose_map (C10) ------------------------------------------------------------------------------------------

func_result = z3.Function('result_of_func_call', Int, Ref)     # the pytree returned by the k-th call of the user function


@pycontract
class TreeTransposeMap(BroadcastVocabulary):
    """tree_transpose_map(func, tree, *rests, inner_treespec=None): func is called once per leaf of `tree` (outer structure,
    m leaves) on aligned arguments; with inner = the given inner_treespec or else the structure of the first result
    (n leaves), the result is  inner.unflatten(< outer.unflatten(< up_to(inner, result_k, j) >_k) >_j)  - the value at
    (inner j, outer k) is the j-th subtree of the k-th result.  ValueError when m == 0 or n == 0."""
    function = 'tree_transpose_map'

    def setup(self, eng, st, fn):
        super().setup(eng, st, fn)
        self.R = z3.Int('number_of_rests')

    def as_ref(self, st, v):
        if isinstance(v, StructV) and v.kind == 'call':
            return v.get('ref')
        return super().as_ref(st, v)

    def map_model(self, eng, st, f, plain, stars, line, node=None):
        if isinstance(f, BoundV) and f.name == 'unflatten':
            seqs = [eng.to_seq(st, a) for a in plain]
            return SeqV(seqs[0].len, None, lazy=('map', f, tuple(seqs)))
        seq = MapVocabulary.map_model(self, eng, st, f, plain, stars, line, node)
        return SeqV(seq.len, lambda k, seq=seq: StructV('call', seq.at(k).fields + (('ref', func_result(k)),)))

    def call(self, eng, st, f, args, kwargs, n, stars):
        if isinstance(f, BuiltinV) and f.name == 'list' and args and isinstance(args[0], SeqV) and args[0].lazy is None:
            st.ghost['forced'] = st.ghost['forced'] + (args[0],)
            return [(st, args[0])]
        return super().call(eng, st, f, args, kwargs, n, stars)

    def raises(self, eng, st, entry):
        return {'FlattenError': None, 'ValueError': None}

    def post(self, eng, st, entry, ret):
        tree, given = entry.env.get('tree'), entry.env.get('inner_treespec')
        is_leaf, nil, ns = self.opts(entry)
        nilb = eng.truth(st, nil)
        T = treespec_of(tree, is_leaf, nilb, ns_str(ns))
        inner = z3.If(given == PYNONE, treespec_of(func_result(0), is_leaf, nilb, ns_str(ns)), given)
        m, n_in = spec_num_leaves(T), spec_num_leaves(inner)
        out = [('no-error-implies-both-structures-have-leaves', z3.And(m > 0, n_in > 0)),
               ('func-is-applied-exactly-once-per-leaf', z3.BoolVal(len(st.ghost['forced']) == 1))]
        if len(st.ghost['forced']) != 1:
            return out
        out += self.calls_post(eng, entry, st.ghost['forced'][0], T, tree)
        if not (isinstance(ret, StructV) and ret.kind == 'unflat'):
            return out + [('result-is-inner-unflatten', z3.BoolVal(False))]
        out.append(('result-has-the-inner-structure', ret.get('spec') == inner))
        seq = ret.get('seq')
        out.append(('one-subtree-per-inner-leaf', seq.len == n_in))
        j, k = z3.Ints('j_inner k_outer')
        el = seq.at(j)
        if not (isinstance(el, StructV) and el.kind == 'unflat'):
            return out + [('subtrees-are-outer-unflatten', z3.BoolVal(False))]
        rng = z3.And(0 <= j, j < n_in, 0 <= k, k < m)
        out.append(('each-subtree-has-the-outer-structure', z3.Implies(rng, el.get('spec') == T)))
        col = eng.to_seq(st, el.get('seq'))
        out.append(('each-subtree-has-one-value-per-outer-leaf', z3.Implies(rng, col.len == m)))
        out.append(('value-at-(inner j, outer k)-is-the-j-th-subtree-of-the-k-th-result',
                    z3.Implies(rng, col.at(k) == up_to(inner, func_result(k), j))))
        return out


@pycontract
class TreeTransposeMapWithPath(TreeTransposeMap):
    function = 'tree_transpose_map_with_path'
    first = ('path',)


@pycontract
class TreeTransposeMapWithAccessor(TreeTransposeMap):
    function = 'tree_transpose_map_with_accessor'
    first = ('accessor',)


# ======================================================================================================================
# C04: accessor.py - equal path entries / accessors hash equally (relational obligation over __eq__ and __hash__)

py_eq = z3.Function('py_eq', Ref, Ref, Bool)                  # Python == on component values (an equivalence, A-EQ)
py_hash_of = z3.Function('py_hash', Ref, Int)


class EqHashRelational(PyContract):
    """For all a, b:  a.__eq__(b) is True  ==>  hash(a) == hash(b).

    Both methods are executed symbolically from their real source.  Attribute reads are uninterpreted functions of the
    object; `==` between component tuples is component-wise Python equality py_eq; hash(tuple) is an uninterpreted function
    of the component hashes.  Assumed about the components (A-EQ): py_eq is an equivalence relation and equal components have
    equal hashes (true of ints, strs, types, bytes - the component types here)."""
    module = 'optree/accessor.py'
    cls = ''
    function = ''

    def setup(self, eng, st, fn):
        st.env.vars['self'] = z3.Const('a', Ref)
        x, y = z3.Consts('x!eq y!eq', Ref)
        st.facts.append(z3.ForAll([x, y], z3.Implies(py_eq(x, y), py_hash_of(x) == py_hash_of(y)), patterns=[py_eq(x, y)]))
        st.facts.append(z3.ForAll([x], py_eq(x, x)))

    def attribute(self, eng, st, base, attr):
        if is_z3(base) and base.sort() == Ref:
            return z3.Function('attr_' + attr, Ref, Ref)(base)
        return None

    def global_name(self, eng, st, name):
        if name == 'hash':
            return BuiltinV('hash')
        if name[:1].isupper():
            return OpaqueV('class:' + name)
        return None

    def isinstance(self, eng, st, obj, cls):
        if isinstance(cls, OpaqueV) and is_z3(obj):
            return z3.Function('isinstance_' + cls.tag.split(':')[1], Ref, Bool)(obj)
        return None

    def equal(self, eng, st, a, b):
        if isinstance(a, TupV) and isinstance(b, TupV):
            if len(a.items) != len(b.items):
                return z3.BoolVal(False)
            return z3.And(*[py_eq(x, y) for x, y in zip(a.items, b.items)])
        return None

    def call(self, eng, st, f, args, kwargs, n, stars):
        if isinstance(f, BuiltinV) and f.name == 'hash' and isinstance(args[0], TupV):
            items = args[0].items
            T = z3.Function(f'tuple_hash_{len(items)}', *([Int] * len(items)), Int)
            return [(st, T(*[py_hash_of(x) for x in items]))]
        return None

    def truth_of(self, eng, st, v):
        return v if is_z3(v) and z3.is_bool(v) else eng.truth(st, v)

    def run_method(self, eng, st, name, args):
        node = eng.funcs[f'{self.cls}.{name}']
        f = FuncV(node, Env(), name)
        outs = eng.call_function(st.clone(), f, args, {}, node)
        return outs

    def post(self, eng, st, entry, ret):
        a, b = z3.Const('a', Ref), z3.Const('b', Ref)
        ha = ret
        out = []
        hb_outs = self.run_method(eng, st, '__hash__', [b])
        eq_outs = self.run_method(eng, st, '__eq__', [a, b])
        if len(hb_outs) != 1:
            return [('hash-is-a-single-expression', z3.BoolVal(False))]
        hb = hb_outs[0][1]
        if not (is_z3(ha) and is_z3(hb) and ha.sort() == Int):
            return [('hash-is-the-hash-of-a-component-tuple', z3.BoolVal(False))]
        # __eq__ may fork (short-circuit `and`): under each path condition, a True result must imply equal hashes
        goals = []
        for s_eq, v in eq_outs:
            pcs = [p for p in s_eq.pc if all(not p.eq(q) for q in st.pc)]
            goals.append(z3.Implies(z3.And(*pcs, self.truth_of(eng, s_eq, v)), ha == hb))
        out.append(('equal-objects-hash-equally', z3.And(*goals) if goals else z3.BoolVal(False)))
        # anti-vacuity: __eq__ is reflexive on instances of the class (so the implication above is not empty)
        refl = []
        for s_eq, v in self.run_method(eng, st, '__eq__', [a, a]):
            pcs = [p for p in s_eq.pc if all(not p.eq(q) for q in st.pc)]
            refl.append(z3.Implies(z3.And(*pcs), self.truth_of(eng, s_eq, v)))
        inst = z3.Function('isinstance_' + self.cls, Ref, Bool)(a)
        out.append(('eq-is-reflexive-on-instances', z3.Implies(inst, z3.And(*refl)) if refl else z3.BoolVal(False)))
        return out


from .engine import Env  # noqa: E402


@pycontract
class EntryEqHash(EqHashRelational):
    cls = 'PyTreeEntry'
    function = 'PyTreeEntry.__hash__'


# ---- C04: the field names of namedtuple / struct-sequence path entries -------------------------------------------------------

entry_type = z3.Function('attr_type', Ref, Ref)                # entry.type
entry_index = z3.Function('attr_entry', Ref, Ref)              # entry.entry
fields_prop = z3.Function('property_fields', Ref, Ref)         # entry.fields (through the contract of the property)
py_getitem = z3.Function('py_getitem', Ref, Ref, Ref)          # a[b]


class EntryFields(PyContract):
    """X.fields is exactly <twin>(self.type) - a function of the entry's own class object and of nothing else (no state shared
    between entries: two classes that merely share their name have their own field names); X.field is self.fields[self.entry].
    The twins namedtuple_fields / structseq_fields are used through their contracts (C18)."""
    module = 'optree/accessor.py'
    twin = ''

    def setup(self, eng, st, fn):
        st.env.vars['self'] = z3.Const('self', Ref)

    def global_name(self, eng, st, name):
        if name == self.twin:
            return OpaqueV('twin:' + name)
        return None

    def attribute(self, eng, st, base, attr):
        if is_z3(base) and base.sort() == Ref:
            return {'type': entry_type, 'entry': entry_index, 'fields': fields_prop}.get(attr, z3.Function('attr_' + attr, Ref, Ref))(base)
        return None

    def call(self, eng, st, f, args, kwargs, n, stars):
        if isinstance(f, OpaqueV) and f.tag == 'twin:' + self.twin and len(args) == 1 and not kwargs:
            s_exc = st.clone()
            eng.throw(s_exc, 'TypeError', n.lineno)
            return [(st, z3.Function(self.twin, Ref, Ref)(args[0]))]
        return None

    def subscript(self, eng, st, base, idx):
        if is_z3(base) and base.sort() == Ref and is_z3(idx) and idx.sort() == Ref:
            s_exc = st.clone()
            eng.throw(s_exc, 'IndexError', 0)
            return py_getitem(base, idx)
        return None

    def raises(self, eng, st, entry):
        return {'TypeError': None, 'IndexError': None}


def _mk_fields(cls, twin):
    me = z3.Const('self', Ref)

    class F(EntryFields):
        function = f'{cls}.fields'

        def post(self, eng, st, entry, ret):
            return [('fields-are-the-field-names-of-the-entrys-own-class', ret == z3.Function(twin, Ref, Ref)(entry_type(me)))]

    class G(EntryFields):
        function = f'{cls}.field'

        def post(self, eng, st, entry, ret):
            return [('field-is-the-name-at-the-entrys-index', ret == py_getitem(fields_prop(me), entry_index(me)))]
    for k in (F, G):
        k.twin = twin
        k.__name__ = k.__qualname__ = f'{cls}_{k.function.split(".")[1]}'
        pycontract(k)


_mk_fields('NamedTupleEntry', 'namedtuple_fields')
_mk_fields('StructSequenceEntry', 'structseq_fields')


# ======================================================================================================================
# C12: registry.pytree_node_registry_get(None, namespace=N) - the whole-table view: N shadows the global namespace

from .engine import MapV  # noqa: E402

h_type = z3.Function('handler_type', Ref, Ref)
h_ns = z3.Function('handler_namespace', Ref, Str)
handler_at = z3.Function('registry_values_at', Int, Ref)


@pycontract
class RegistryGetTable(PyContract):
    """register_pytree_node.get(None, namespace=N): for every type t the returned dict holds the handler registered for
    (N, t) if there is one, else the handler registered for t in the global namespace, else nothing - whatever the order in
    which the two were registered (the order of _NODETYPE_REGISTRY.values()); dict / defaultdict are overridden exactly when
    the namespace is in insertion-ordered mode.  Precondition of this contract: cls is None (the table view).
    Registry invariant assumed (established by register_pytree_node, proved above): at most one handler per (namespace, type)."""
    module = 'optree/registry.py'
    function = 'pytree_node_registry_get'

    def setup(self, eng, st, fn):
        st.env.vars['cls'] = PYNONE
        st.env.vars['namespace'] = z3.Const('namespace', Ref)
        self.H = z3.Int('number_of_handlers')
        st.facts.append(self.H >= 0)
        i, j = z3.Ints('i!ri j!ri')
        inr = lambda k: z3.And(0 <= k, k < self.H)
        st.facts.append(z3.ForAll([i, j], z3.Implies(z3.And(inr(i), inr(j), i != j),
                                                     z3.Or(h_type(handler_at(i)) != h_type(handler_at(j)),
                                                           h_ns(handler_at(i)) != h_ns(handler_at(j))))))
        self.ordered = z3.Bool('namespace_is_insertion_ordered')
        self.t_dict, self.t_ddict = z3.Consts('type_dict type_defaultdict', Ref)
        st.facts.append(self.t_dict != self.t_ddict)

    def global_name(self, eng, st, name):
        if name == '_NODETYPE_REGISTRY':
            return OpaqueV('mirror')
        if name == 'namedtuple':
            return z3.Const('namedtuple_factory', Ref)
        if name == 'dict':
            return self.t_dict
        if name == 'defaultdict':
            return self.t_ddict
        if name in ('_DICT_INSERTION_ORDERED_REGISTRY_ENTRY', '_DEFAULTDICT_INSERTION_ORDERED_REGISTRY_ENTRY'):
            return z3.Const(name, Ref)
        return super().global_name(eng, st, name)

    def attribute(self, eng, st, base, attr):
        if is_z3(base) and base.sort() == Ref and attr == 'type':
            return h_type(base)
        if is_z3(base) and base.sort() == Ref and attr == 'namespace':
            return h_ns(base)
        return None

    def isinstance(self, eng, st, obj, cls):
        return None

    def equal(self, eng, st, a, b):
        # namespace strings: the parameter is a Python object, handler namespaces and literals are strings
        def as_str(x):
            if is_z3(x) and x.sort() == Str:
                return x
            if is_z3(x) and x.sort() == Ref:
                return str_of(x)
            return None
        if is_z3(a) and is_z3(b) and {a.sort(), b.sort()} == {Ref, Str}:
            return as_str(a) == as_str(b)
        return None

    def call(self, eng, st, f, args, kwargs, n, stars):
        line = n.lineno
        if isinstance(f, BoundV) and isinstance(f.obj, OpaqueV) and f.obj.tag == 'mirror' and f.name == 'values':
            if 'lock:__REGISTRY_LOCK' not in st.ghost['locks']:
                eng.oblige(st, 'IV', 'lockset:_NODETYPE_REGISTRY-read-under-__REGISTRY_LOCK', z3.BoolVal(False), line)
            return [(st, SeqV(self.H, lambda k: handler_at(k)))]
        if isinstance(f, BoundV) and isinstance(f.obj, OpaqueV) and f.obj.tag == 'module:_C' and f.name == 'is_dict_insertion_ordered':
            # the binding's parameter defaults to the global namespace ('')
            asked = ns_str(args[0]) if args else (ns_str(kwargs['registry_namespace']) if 'registry_namespace' in kwargs else EMPTY)
            eng.oblige(st, 'III', 'mode-is-asked-for-the-effective-namespace', asked == self.eff(st), line)
            return [(st, self.ordered)]
        return None

    def eff(self, st):
        ns = z3.Const('namespace', Ref)
        return z3.If(ns == GLOBAL_NS, EMPTY, str_of(ns))

    def raises(self, eng, st, entry):
        ns = z3.Const('namespace', Ref)
        return {'TypeError': z3.Not(z3.Or(ns == GLOBAL_NS, is_str(ns)))}

    def post(self, eng, st, entry, ret):
        if not isinstance(ret, MapV):
            return [('returns-a-dict', z3.BoolVal(False))]
        N = self.eff(st)
        t = z3.Const('t!post', Ref)
        k = z3.Int('k!post')
        inr = z3.And(0 <= k, k < self.H)
        named = lambda ty: z3.Exists([k], z3.And(inr, N != EMPTY, h_ns(handler_at(k)) == N, h_type(handler_at(k)) == ty))
        glob = lambda ty: z3.Exists([k], z3.And(inr, h_ns(handler_at(k)) == EMPTY, h_type(handler_at(k)) == ty))
        special = z3.And(self.ordered, z3.Or(t == self.t_dict, t == self.t_ddict))
        v = ret.val(t)
        return [('lock-released', z3.BoolVal(st.ghost['locks'] == ())),
                ('holds-exactly-the-types-registered-globally-or-in-the-namespace',
                 z3.Implies(z3.Not(special), ret.has(t) == z3.Or(named(t), glob(t)))),
                ('namespace-entry-shadows-the-global-one',
                 z3.Implies(z3.And(z3.Not(special), named(t)), z3.And(h_ns(v) == N, h_type(v) == t))),
                ('otherwise-the-global-entry',
                 z3.Implies(z3.And(z3.Not(special), z3.Not(named(t)), glob(t)), z3.And(h_ns(v) == EMPTY, h_type(v) == t))),
                ('dict-entries-overridden-exactly-in-insertion-ordered-mode',
                 z3.Implies(self.ordered, z3.And(ret.has(self.t_dict), ret.has(self.t_ddict),
                                                 ret.val(self.t_dict) == z3.Const('_DICT_INSERTION_ORDERED_REGISTRY_ENTRY', Ref),
                                                 ret.val(self.t_ddict) == z3.Const('_DEFAULTDICT_INSERTION_ORDERED_REGISTRY_ENTRY', Ref))))]


# ======================================================================================================================
# C18: typing.is_namedtuple_class against the specification predicate NT that the engine twin IsNamedTupleClassImpl is proved
# against as well (ocv/contracts/twins.py) - twin agreement is then a corollary, for every class.
#
# Vocabulary (A-ATTR: attribute lookup on the class is deterministic and has no side effects; a lookup either yields a
# value or fails with AttributeError - lookups that raise something else are the known finding C18.*_twin_agrees):
#   nt_is_type(c)            isinstance(c, type)            / PyType_Check
#   nt_tuple_subclass(c)     issubclass(c, tuple)           / Py_TPFLAGS_TUPLE_SUBCLASS
#   nt_has(c, name)          the attribute exists
#   nt_attr(c, name)         its value
#   nt_exact_tuple(v), nt_exact_str(v), nt_callable(v); py_len / py_item of an exact tuple

from ..twinspec import (NT, names_distinct, nt_attr, nt_callable, nt_exact_str, nt_exact_tuple, nt_has, nt_is_type, nt_item,  # noqa: E402
                        nt_len, nt_name, nt_tuple_subclass)


py_type_of = z3.Function('py_type_of', Ref, Ref)


@pycontract
class IsNamedTupleClassPy(PyContract):
    module = 'optree/typing.py'
    function = 'is_namedtuple_class'

    def setup(self, eng, st, fn):
        st.env.vars['cls'] = z3.Const('cls', Ref)
        st.facts.append(z3.Not(nt_callable(PYNONE)))
        st.facts.append(z3.Not(nt_exact_tuple(PYNONE)))
        st.facts.append(names_distinct())

    def global_name(self, eng, st, name):
        if name in ('type', 'tuple', 'str'):
            return BuiltinV(name)
        if name in ('getattr', 'issubclass', 'callable', 'all', 'any'):
            return BuiltinV(name)
        return None

    def isinstance(self, eng, st, obj, cls):
        if isinstance(cls, BuiltinV) and cls.name == 'type':
            return nt_is_type(obj)
        if isinstance(cls, BuiltinV) and cls.name in ('tuple', 'str') and is_z3(obj):
            # isinstance is weaker than the exact-type test: exact implies instance, not conversely
            inst = z3.Function('nt_isinstance_' + cls.name, Ref, Bool)(obj)
            st.facts.append(z3.Implies({'tuple': nt_exact_tuple, 'str': nt_exact_str}[cls.name](obj), inst))
            return inst
        return None

    def attribute(self, eng, st, base, attr):
        # cls._fields after the getattr test succeeded: the same lookup (A-ATTR)
        if is_z3(base) and base.sort() == Ref:
            return nt_attr(base, nt_name(attr))
        return None

    def to_seq(self, eng, st, v):
        if is_z3(v) and v.sort() == Ref:
            st.facts.append(nt_len(v) >= 0)
            return SeqV(nt_len(v), lambda i, v=v: nt_item(v, i))
        return None

    def call(self, eng, st, f, args, kwargs, n, stars):
        if not isinstance(f, BuiltinV):
            return None
        if f.name == 'issubclass' and isinstance(args[1], BuiltinV) and args[1].name == 'tuple':
            return [(st, nt_tuple_subclass(args[0]))]
        if f.name == 'getattr' and len(args) == 3 and isinstance(n.args[1], ast.Constant) and isinstance(n.args[1].value, str):
            nm = nt_name(n.args[1].value)
            return [(st, z3.If(nt_has(args[0], nm), nt_attr(args[0], nm), args[2]))]
        if f.name == 'type' and len(args) == 1:
            return [(st, py_type_of(args[0]))]
        if f.name == 'callable':
            return [(st, nt_callable(args[0]))]
        if f.name == 'all':
            seq = eng.to_seq(st, args[0])
            i = z3.Int('i!all')
            return [(st, z3.ForAll([i], z3.Implies(z3.And(0 <= i, i < seq.len), eng.truth(st, seq.at(i)))))]
        if f.name == 'any':
            seq = eng.to_seq(st, args[0])
            i = z3.Int('i!any')
            return [(st, z3.Exists([i], z3.And(0 <= i, i < seq.len, eng.truth(st, seq.at(i)))))]
        return None

    def identical(self, eng, a, b):
        for x, y in ((a, b), (b, a)):
            if is_z3(x) and z3.is_app(x) and x.decl().name() == 'py_type_of' and isinstance(y, BuiltinV):
                if y.name == 'tuple':
                    return nt_exact_tuple(x.arg(0))
                if y.name == 'str':
                    return nt_exact_str(x.arg(0))
        return None

    def post(self, eng, st, entry, ret):
        return [('result-is-the-namedtuple-class-predicate', eng.truth(st, ret) == NT(z3.Const('cls', Ref)))]


@pycontract
class NamedTupleFieldsPy(IsNamedTupleClassPy):
    """typing.namedtuple_fields(obj): with C = obj if obj is a type else type(obj): TypeError exactly when C is not a namedtuple
    class (NT), otherwise C._fields.  is_namedtuple_class is used through its proved contract."""
    function = 'namedtuple_fields'

    def setup(self, eng, st, fn):
        super().setup(eng, st, fn)
        st.env.vars.pop('cls', None)
        st.env.vars['obj'] = z3.Const('obj', Ref)

    def call(self, eng, st, f, args, kwargs, n, stars):
        if isinstance(f, FuncV) and f.name == 'is_namedtuple_class':
            return [(st, NT(args[0]))]
        return super().call(eng, st, f, args, kwargs, n, stars)

    def C(self):
        o = z3.Const('obj', Ref)
        return z3.If(nt_is_type(o), o, py_type_of(o))

    def raises(self, eng, st, entry):
        return {'TypeError': z3.Not(NT(self.C()))}

    def post(self, eng, st, entry, ret):
        return [('returns-the-fields-of-the-class', ret == nt_attr(self.C(), nt_name('_fields'))),
                ('only-for-namedtuple-classes', NT(self.C()))]


# ======================================================================================================================
# C18: typing.is_structseq_class against SS = PyType_Check + SS_impl, the predicate the engine twin IsStructSequenceClassImpl is
# proved against (ocv/contracts/twins.py).  Additional vocabulary / assumptions:
#   A-BASES   for a type object, `cls.__bases__` is the tp_bases slot: a non-NULL exact tuple whose items compare by identity,
#             and a class whose only base is `tuple` has the tuple-subclass flag (CPython's type creation inherits it)
#   A-FLAGS   `cls.__flags__` is the tp_flags slot; the module constant Py_TPFLAGS_BASETYPE is CPython's 1 << 10
#   A-CPYTHON `platform.python_implementation()` is 'CPython' (the PyPy branches of both twins are not verified)

from ..twinspec import (SS_impl, SS_NAMES, ss_bases, ss_bases_is_tuple_only, ss_basetype, ss_exact_int, ss_names_distinct,  # noqa: E402
                        ss_tuple_type)

ss_flags = z3.Function('ss_flags', Ref, Int)
PY_BASETYPE = 1 << 10


def SS(c):
    return z3.And(nt_is_type(c), SS_impl(c))


@pycontract
class IsStructSeqClassPy(IsNamedTupleClassPy):
    function = 'is_structseq_class'

    def setup(self, eng, st, fn):
        super().setup(eng, st, fn)
        c = z3.Const('cls', Ref)
        st.facts.append(ss_names_distinct())
        st.facts.append(z3.Not(ss_exact_int(PYNONE)))
        st.facts.append(z3.Implies(nt_is_type(c), z3.And(ss_bases(c) != NULL, nt_exact_tuple(ss_bases(c)))))      # A-BASES
        st.facts.append(z3.Implies(z3.And(nt_is_type(c), ss_bases_is_tuple_only(c)), nt_tuple_subclass(c)))       # A-BASES

    def global_name(self, eng, st, name):
        if name in ('int', 'bool', 'platform'):
            return BuiltinV(name)
        if name == 'Py_TPFLAGS_BASETYPE':
            return z3.IntVal(PY_BASETYPE)                                                                         # A-FLAGS
        return super().global_name(eng, st, name)

    def attribute(self, eng, st, base, attr):
        if isinstance(base, BuiltinV) and base.name == 'platform' and attr == 'python_implementation':
            return BuiltinV('platform.python_implementation')
        if is_z3(base) and base.sort() == Ref and attr == '__bases__':
            return ss_bases(base)
        if is_z3(base) and base.sort() == Ref and attr == '__flags__':
            return ss_flags(base)
        return super().attribute(eng, st, base, attr)

    def equal(self, eng, st, a, b):
        for x, y in ((a, b), (b, a)):
            if is_z3(x) and z3.is_app(x) and x.decl().name() == 'ss_bases' and isinstance(y, TupV):
                if len(y.items) == 1 and isinstance(y.items[0], BuiltinV) and y.items[0].name == 'tuple':
                    return ss_bases_is_tuple_only(x.arg(0))
                raise Unsupported('__bases__ compared with another tuple display')
        return None

    def binop(self, eng, st, op, a, b):
        if isinstance(op, ast.BitAnd):
            for x, y in ((a, b), (b, a)):
                if is_z3(x) and z3.is_app(x) and x.decl().name() == 'ss_flags' and z3.is_int_value(y):
                    if y.as_long() != PY_BASETYPE:
                        raise Unsupported(f'__flags__ & {y}')
                    return z3.If(ss_basetype(x.arg(0)), z3.IntVal(PY_BASETYPE), z3.IntVal(0))
        return None

    def call(self, eng, st, f, args, kwargs, n, stars):
        if isinstance(f, BuiltinV) and f.name == 'platform.python_implementation' and not args:
            lit = lambda v: z3.Const('strlit_' + str(abs(hash(v)) % 10**8), Str)     # the engine's constant for a string literal
            eng.assume(st, lit('CPython') != lit('PyPy'))
            return [(st, lit('CPython'))]                                                                          # A-CPYTHON
        if isinstance(f, BuiltinV) and f.name == 'bool' and len(args) == 1:
            return [(st, eng.truth(st, args[0]))]
        return super().call(eng, st, f, args, kwargs, n, stars)

    def identical(self, eng, a, b):
        for x, y in ((a, b), (b, a)):
            if is_z3(x) and z3.is_app(x) and x.decl().name() == 'py_type_of' and isinstance(y, BuiltinV) and y.name == 'int':
                return ss_exact_int(x.arg(0))
        return super().identical(eng, a, b)

    def isinstance(self, eng, st, obj, cls):
        if isinstance(cls, BuiltinV) and cls.name == 'int' and is_z3(obj):
            from ..twinspec import ss_is_int
            st.facts.append(z3.Implies(ss_exact_int(obj), ss_is_int(obj)))
            return ss_is_int(obj)
        return super().isinstance(eng, st, obj, cls)

    def post(self, eng, st, entry, ret):
        return [('result-is-the-struct-sequence-class-predicate', eng.truth(st, ret) == SS(z3.Const('cls', Ref)))]


# ---- C18: the delegating twins is_namedtuple / is_namedtuple_instance / is_structseq / is_structseq_instance: the class predicate
# (used through its proved contract NT / SS - whichever implementation the module-level name is bound to satisfies it) applied to
# the object itself if it is a type, else to its type / always to its type.

def _delegating(function, pred, callee, instance_only, parent):
    class _D(parent):
        def setup(self, eng, st, fn):
            super().setup(eng, st, fn)
            st.env.vars.pop('cls', None)
            st.env.vars['obj'] = z3.Const('obj', Ref)

        def call(self, eng, st, f, args, kwargs, n, stars):
            if isinstance(f, FuncV) and f.name == callee:
                return [(st, pred(args[0]))]
            return super().call(eng, st, f, args, kwargs, n, stars)

        def post(self, eng, st, entry, ret):
            o = z3.Const('obj', Ref)
            C = py_type_of(o) if instance_only else z3.If(nt_is_type(o), o, py_type_of(o))
            return [('result-is-the-class-predicate-of-' + ('the-type-of-the-object' if instance_only else 'the-object-if-a-type-else-of-its-type'),
                     eng.truth(st, ret) == pred(C))]
    _D.function = function
    _D.__name__ = 'Delegating_' + function
    _D.__qualname__ = _D.__name__
    _D.__doc__ = f'typing.{function}(obj): {callee} of ' + ('type(obj)' if instance_only else 'obj if it is a type, else of type(obj)')
    return pycontract(_D)


IsNamedTuplePy = _delegating('is_namedtuple', NT, 'is_namedtuple_class', False, IsNamedTupleClassPy)
IsNamedTupleInstancePy = _delegating('is_namedtuple_instance', NT, 'is_namedtuple_class', True, IsNamedTupleClassPy)
IsStructSeqPy = _delegating('is_structseq', SS, 'is_structseq_class', False, IsStructSeqClassPy)
IsStructSeqInstancePy = _delegating('is_structseq_instance', SS, 'is_structseq_class', True, IsStructSeqClassPy)


# ======================================================================================================================
# C18 / C02: utils.total_order_sorted - the Python twin of the engine's TotalOrderSort (ocv/contracts/sorting.py), against
# the same three-stage specification over abstract list contents

sorted_plain = z3.Function('sorted_plain', Ref, Ref)
sorted_by_key = z3.Function('sorted_by_typename_then_value', Ref, Ref)


@pycontract
class TotalOrderSortedPy(PyContract):
    """total_order_sorted(iterable) with key=None, reverse=False (the way the one-level twin uses it):
       result = sorted_plain(C0)  if sorting C0 = list(iterable) directly succeeds,
                sorted_by_typename_then_value(C0)  if that raised TypeError and sorting by the fallback key succeeds,
                C0  if that raised TypeError as well;  every other exception propagates.
       The fallback key of x is (<'module.qualname' of type(x)>, x)."""
    module = 'optree/utils.py'
    function = 'total_order_sorted'

    def setup(self, eng, st, fn):
        st.env.vars['iterable'] = z3.Const('iterable', Ref)
        st.env.vars['key'] = PYNONE
        st.env.vars['reverse'] = z3.BoolVal(False)
        self.C0 = z3.Const('content_on_entry', Ref)
        st.ghost['outcomes'] = ()
        st.ghost['key_checked'] = False

    def global_name(self, eng, st, name):
        if name in ('sorted',):
            return BuiltinV('sorted')
        return None

    def attribute(self, eng, st, base, attr):
        if is_z3(base) and base.sort() == Ref:
            return z3.Function('attr_' + attr, Ref, Ref)(base)
        return None

    def call(self, eng, st, f, args, kwargs, n, stars):
        line = n.lineno
        if isinstance(f, BuiltinV) and f.name == 'list' and len(args) == 1 and is_z3(args[0]):
            s_exc = st.clone()
            eng.throw(s_exc, 'IterationError', line)
            return [(st, StructV('content', (('c', self.C0),)))]
        if isinstance(f, BuiltinV) and f.name == 'sorted':
            seq = args[0]
            if not (isinstance(seq, StructV) and seq.kind == 'content'):
                raise Unsupported('sorted of something else')
            eng.oblige(st, 'III', 'sorts-the-original-content', seq.get('c') == self.C0, line)
            keyf = kwargs.get('key', PYNONE)
            which = 'sort1' if not isinstance(keyf, FuncV) else 'sort2'
            if isinstance(keyf, FuncV):
                x = z3.Const('x!key', Ref)
                s_k = st.clone()
                r = eng.call_function(s_k, keyf, [x], {}, n)
                ok = len(r) == 1 and isinstance(r[0][1], TupV) and len(r[0][1].items) == 2
                eng.oblige(st, 'III', 'fallback-key-is-a-pair', z3.BoolVal(ok), line)
                if ok:
                    eng.oblige(st, 'III', 'fallback-key-second-component-is-the-object-itself', eng.identical(r[0][1].items[1], x), line)
                st.ghost['key_checked'] = True
            else:
                eng.oblige(st, 'III', 'first-sort-uses-the-given-key', eng.identical(keyf, st.env.get('key')), line)
            eng.oblige(st, 'III', 'forwards-reverse', eng.truth(st, kwargs.get('reverse', z3.BoolVal(False))) == eng.truth(st, st.env.get('reverse')), line)
            fn = sorted_plain if which == 'sort1' else sorted_by_key
            s_te, s_other = st.clone(), st.clone()
            s_te.ghost['outcomes'] = s_te.ghost['outcomes'] + ((which, 'TypeError'),)
            eng.throw(s_te, 'TypeError', line)
            s_other.ghost['outcomes'] = s_other.ghost['outcomes'] + ((which, 'other'),)
            eng.throw(s_other, 'OtherError', line)
            st.ghost['outcomes'] = st.ghost['outcomes'] + ((which, 'ok'),)
            return [(st, StructV('content', (('c', fn(seq.get('c'))),)))]
        return None

    def raises(self, eng, st, entry):
        oc = dict(st.ghost['outcomes'])
        # only a non-TypeError exception of one of the two sorts (or of iterating the argument) may leave the function
        return {'OtherError': z3.BoolVal('other' in oc.values()), 'IterationError': None}

    def post(self, eng, st, entry, ret):
        oc = dict(st.ghost['outcomes'])
        if not (isinstance(ret, StructV) and ret.kind == 'content'):
            return [('returns-a-list-of-the-items', z3.BoolVal(False))]
        c = ret.get('c')
        if oc.get('sort1') == 'ok':
            exp, legal = sorted_plain(self.C0), True
        elif oc.get('sort1') == 'TypeError' and oc.get('sort2') == 'ok':
            exp, legal = sorted_by_key(self.C0), True
        elif oc.get('sort1') == 'TypeError' and oc.get('sort2') == 'TypeError':
            exp, legal = self.C0, True
        else:
            exp, legal = self.C0, False
        return [('normal-return-only-in-the-documented-cases', z3.BoolVal(legal)),
                ('content-is-the-documented-order', c == exp),
                ('fallback-key-function-was-checked-when-the-fallback-ran', z3.BoolVal('sort2' not in oc or st.ghost['key_checked']))]


# ======================================================================================================================
# C20: the unravel functions of optree/integration/{numpy,torch}.py against an abstract array algebra
#
# A-ARRAY (assumed contracts of the array libraries; nothing about element VALUES is decided here):
#   shape_of(x)                 np.shape(x) / x.shape;   shape1(n) the shape (n,), injective
#   dtype_of(x)                 np.result_type(x) / x.dtype
#   np.split(a, cuts)           piece k = part(a, cut_{k-1}, cut_k) with cut_{-1} = 0, last end = len(a); len(cuts)+1 pieces
#   torch.split(a, sizes)       piece k = part(a, S_k, S_k + sizes[k]) with S the prefix sums of sizes; len(sizes) pieces
#   x.reshape(s) / x.astype(d) / x.to(d)   uninterpreted results reshaped(x, s), cast(x, d)
#   sum(seq)                    the prefix sum at len(seq)
# Round trip (follows from these contracts and the library laws part(concat(R), S_k, S_{k+1}) = R[k] for |R[k]| = S_{k+1}-S_k and
# reshaped(ravel(x), shape_of(x)) = x): unravel(ravel(t)) = t.  The laws themselves are about the libraries and are bounded only.

shape_of = z3.Function('array_shape', Ref, Ref)
shape1 = z3.Function('shape_1d', Int, Ref)
dtype_of = z3.Function('array_dtype', Ref, Ref)
part = z3.Function('array_part', Ref, Int, Int, Ref)
reshaped = z3.Function('array_reshaped', Ref, Ref, Ref)
cast = z3.Function('array_cast', Ref, Ref, Ref)
int_at = z3.Function('int_tuple_at', Ref, Int, Int)        # i-th element of a tuple of ints
ref_at = z3.Function('ref_tuple_at', Ref, Int, Ref)
tup_len = z3.Function('py_len', Ref, Int)
psum = z3.Function('prefix_sum', Ref, Int, Int)            # psum(sizes, k) = sizes[0] + .. + sizes[k-1]
is_tensor = z3.Function('torch_is_tensor', Ref, Bool)


class UnravelBase(PyContract):
    backend = 'numpy'
    cut_param = 'indices'        # numpy: cumulative end offsets; torch: sizes
    mixed = False

    def setup(self, eng, st, fn):
        a = fn.args
        for p in a.posonlyargs + a.args + a.kwonlyargs:
            st.env.vars[p.arg] = z3.Const(p.arg, Ref)
        c = z3.Const(self.cut_param, Ref)
        st.facts.append(tup_len(c) >= 1)          # the unravel functions are only built for at least one leaf (_ravel_leaves)
        i = z3.Int('i!a')
        st.facts.append(z3.ForAll([i], z3.Implies(i >= 0, psum(c, i + 1) == psum(c, i) + int_at(c, i)), patterns=[psum(c, i + 1)]))
        st.facts.append(psum(c, 0) == 0)
        n, m = z3.Ints('n!a m!a')
        st.facts.append(z3.ForAll([n, m], z3.Implies(shape1(n) == shape1(m), n == m), patterns=[z3.MultiPattern(shape1(n), shape1(m))]))
        # a one-dimensional array of shape (n,) has n elements
        st.facts.append(z3.ForAll([n], z3.Implies(shape_of(z3.Const('flat', Ref)) == shape1(n), z3.Int('len_of_flat') == n),
                                  patterns=[shape1(n)]))

    def global_name(self, eng, st, name):
        if name in ('np', 'torch', 'warnings', 'jnp', 'dtypes', 'lax'):
            return OpaqueV('module:' + name)
        if name in ('sum', 'list', 'tuple'):
            return BuiltinV(name)
        if name == 'safe_zip':
            return BuiltinV('safe_zip')
        return None

    def to_seq(self, eng, st, v):
        if is_z3(v) and v.sort() == Ref:
            st.facts.append(tup_len(v) >= 0)
            if v.eq(z3.Const(self.cut_param, Ref)):
                return SeqV(tup_len(v), lambda i, v=v: int_at(v, i))
            return SeqV(tup_len(v), lambda i, v=v: ref_at(v, i))
        return None

    def attribute(self, eng, st, base, attr):
        if is_z3(base) and base.sort() == Ref:
            if attr == 'shape':
                return shape_of(base)
            if attr == 'dtype':
                return dtype_of(base)
            if attr in ('reshape', 'astype', 'to'):
                return BoundV(base, attr)
        return None

    def subscript(self, eng, st, base, idx):
        if is_z3(base) and base.sort() == Ref:
            seq = self.to_seq(eng, st, base)
            return eng.index(st, seq, idx)
        return None

    def equal(self, eng, st, a, b):
        # shape comparison  x.shape == (n,)
        for x, y in ((a, b), (b, a)):
            if is_z3(x) and x.sort() == Ref and isinstance(y, TupV) and len(y.items) == 1:
                return x == shape1(eng.as_int(y.items[0]))
        if is_z3(a) and is_z3(b) and a.sort() == Ref and b.sort() == Ref:
            return a == b
        return None

    def call(self, eng, st, f, args, kwargs, n, stars):
        line = n.lineno
        if isinstance(f, BoundV) and isinstance(f.obj, OpaqueV) and f.obj.tag == 'module:dtypes' and f.name == 'dtype':
            return [(st, dtype_of(args[0]))]
        if isinstance(f, BoundV) and isinstance(f.obj, OpaqueV) and f.obj.tag == 'module:lax' and f.name == 'convert_element_type':
            return [(st, cast(args[0], args[1]))]
        if isinstance(f, BoundV) and isinstance(f.obj, OpaqueV) and f.obj.tag in ('module:np', 'module:torch', 'module:jnp'):
            if f.name == 'shape':
                return [(st, shape_of(args[0]))]
            if f.name == 'result_type':
                return [(st, dtype_of(args[0]))]
            if f.name == 'is_tensor':
                return [(st, is_tensor(args[0]))]
            if f.name == 'promote_types':
                return [(st, z3.Function('promote_types', Ref, Ref, Ref)(args[0], args[1]))]
            if f.name == 'split':
                flat, cuts = args[0], eng.to_seq(st, args[1])
                if self.backend in ('numpy', 'jax'):
                    return [(st, SeqV(cuts.len + 1, lambda k, flat=flat, cuts=cuts: part(
                        flat, z3.If(k == 0, 0, eng.as_int(cuts.at(k - 1))), z3.If(k == cuts.len, z3.Int('len_of_flat'), eng.as_int(cuts.at(k))))))]
                c = z3.Const(self.cut_param, Ref)
                return [(st, SeqV(cuts.len, lambda k, flat=flat, cuts=cuts, c=c: part(flat, psum(c, k), psum(c, k) + eng.as_int(cuts.at(k)))))]
        if isinstance(f, BoundV) and isinstance(f.obj, OpaqueV) and f.obj.tag == 'module:warnings':
            return [(st, OpaqueV('warnings:' + f.name))]
        if isinstance(f, BoundV) and is_z3(f.obj) and f.name == 'reshape':
            return [(st, reshaped(f.obj, args[0]))]
        if isinstance(f, BoundV) and is_z3(f.obj) and f.name in ('astype', 'to'):
            return [(st, cast(f.obj, args[0]))]
        if isinstance(f, BuiltinV) and f.name == 'sum':
            seq = eng.to_seq(st, args[0])
            return [(st, psum(z3.Const(self.cut_param, Ref), seq.len))]
        if isinstance(f, BuiltinV) and f.name == 'list' and args and isinstance(args[0], SeqV):
            return [(st, args[0])]
        if isinstance(f, BuiltinV) and f.name == 'list' and args and is_z3(args[0]):
            return [(st, eng.to_seq(st, args[0]))]
        if isinstance(f, BuiltinV) and f.name == 'safe_zip':
            seqs = [eng.to_seq(st, a) for a in args]
            same = z3.And(*[s_.len == seqs[0].len for s_ in seqs[1:]]) if len(seqs) > 1 else z3.BoolVal(True)
            s_bad = st.clone()
            eng.assume(s_bad, z3.Not(same))
            if eng.feasible(s_bad):
                eng.throw(s_bad, 'ValueError(length mismatch)', line)
            eng.assume(st, same)
            return [(st, SeqV(seqs[0].len, lambda i, seqs=seqs: TupV(tuple(s_.at(i) for s_ in seqs))))]
        return None

    # expected piece boundaries
    def bounds(self, k):
        c = z3.Const(self.cut_param, Ref)
        if self.backend in ('numpy', 'jax'):
            return z3.If(k == 0, 0, int_at(c, k - 1)), int_at(c, k)
        return psum(c, k), psum(c, k + 1)

    def total(self):
        c = z3.Const(self.cut_param, Ref)
        return int_at(c, tup_len(c) - 1) if self.backend in ('numpy', 'jax') else psum(c, tup_len(c))

    def raises(self, eng, st, entry):
        flat = z3.Const('flat', Ref)
        wrong_shape = shape_of(flat) != shape1(self.total())
        conds = [wrong_shape]
        if self.backend == 'torch':
            conds.append(z3.Not(is_tensor(flat)))
        if self.mixed:
            conds.append(dtype_of(flat) != z3.Const('to_dtype', Ref))
        return {'ValueError': z3.Or(*conds), 'ValueError(length mismatch)': None}

    def post(self, eng, st, entry, ret):
        flat, shapes = z3.Const('flat', Ref), z3.Const('shapes', Ref)
        c = z3.Const(self.cut_param, Ref)
        out = [('accepted-only-with-the-right-shape', shape_of(flat) == shape1(self.total()))]
        if self.backend == 'torch':
            out.append(('accepted-only-for-tensors', is_tensor(flat)))
        if self.mixed:
            out.append(('accepted-only-with-the-promoted-dtype', dtype_of(flat) == z3.Const('to_dtype', Ref)))
        if not isinstance(ret, SeqV):
            return out + [('returns-a-list', z3.BoolVal(False))]
        k = z3.Int('k!piece')
        n_ = tup_len(c)
        lo, hi = self.bounds(k)
        piece = part(flat, lo, hi)
        exp = reshaped(piece, ref_at(shapes, k))
        if self.mixed:
            exp = cast(exp, ref_at(z3.Const('from_dtypes', Ref), k))
        out += [('one-array-per-leaf', z3.And(ret.len == n_, ret.len == tup_len(shapes))),
                ('array-k-is-piece-k-of-flat-in-shape-k' + ('-cast-back-to-dtype-k' if self.mixed else ''),
                 z3.Implies(z3.And(0 <= k, k < n_), ret.at(k) == exp))]
        return out


def _mk_unravel(module, function, backend, cut_param, mixed):
    cls = type('Unravel_' + backend + '_' + function, (UnravelBase,), {'module': module, 'function': function, 'backend': backend,
                                                                       'cut_param': cut_param, 'mixed': mixed})
    return pycontract(cls)


_mk_unravel('optree/integration/numpy.py', '_unravel_leaves_single_dtype', 'numpy', 'indices', False)
_mk_unravel('optree/integration/numpy.py', '_unravel_leaves', 'numpy', 'indices', True)
_mk_unravel('optree/integration/torch.py', '_unravel_leaves_single_dtype', 'torch', 'sizes', False)
_mk_unravel('optree/integration/torch.py', '_unravel_leaves', 'torch', 'sizes', True)
_mk_unravel('optree/integration/jax.py', '_unravel_leaves_single_dtype', 'jax', 'indices', False)
_mk_unravel('optree/integration/jax.py', '_unravel_leaves', 'jax', 'indices', True)


# ---- C20: numpy _ravel_leaves ----------------------------------------------------------------------------------------------
raveled_of = z3.Function('array_ravel_C_order', Ref, Ref)          # np.ravel(x) in C (row-major) order
size_of = z3.Function('array_size', Ref, Int)
concat_of = z3.Function('array_concatenate', Ref, Ref)             # of a sequence object (see seq_obj)
result_type_all = z3.Function('result_type_of_all', Ref, Ref)
leaf_at = z3.Function('leaves_at', Int, Ref)


@pycontract
class RavelLeavesNumpy(PyContract):
    """_ravel_leaves(leaves), numpy: for no leaves (zeros(0), _unravel_empty); otherwise the flat array is the concatenation of
    np.ravel(leaf_k) - default C order, cast to the common dtype when the dtypes differ - in leaf order, and the unravel
    closure is partial(_unravel_leaves[_single_dtype], indices, shapes[, from_dtypes, to_dtype]) with
    indices[k] = size(leaf_0) + .. + size(leaf_k), shapes[k] = np.shape(leaf_k), from_dtypes[k] = result_type(leaf_k)."""
    module = 'optree/integration/numpy.py'
    function = '_ravel_leaves'
    extra_modules = ()
    array_module = 'module:np'

    def mixed_piece(self, k, to):
        return cast(raveled_of(leaf_at(k)), to)           # np.ravel(leaf).astype(to_dtype)

    def setup(self, eng, st, fn):
        self.n = z3.Int('number_of_leaves')
        st.facts.append(self.n >= 0)
        st.env.vars['leaves'] = SeqV(self.n, lambda i: leaf_at(i))
        i = z3.Int('i!rl')
        st.facts.append(z3.ForAll([i], size_of(leaf_at(i)) >= 0, patterns=[size_of(leaf_at(i))]))
        self.acc = z3.Function('accumulated_sizes', Int, Int)
        st.facts.append(z3.ForAll([i], z3.Implies(i >= 0, self.acc(i) == z3.If(i == 0, 0, self.acc(i - 1)) + size_of(leaf_at(i))),
                                  patterns=[self.acc(i)]))

    def global_name(self, eng, st, name):
        if name in ('np', 'itertools', 'functools') + self.extra_modules:
            return OpaqueV('module:' + name)
        if name in ('all', 'any', 'tuple', 'list'):
            return BuiltinV(name)
        if name == 'HashablePartial' and 'jnp' in self.extra_modules:
            return OpaqueV('class:HashablePartial')
        if name in ('_unravel_empty', '_unravel_leaves_single_dtype', '_unravel_leaves'):
            return OpaqueV('fn:' + name)
        return None

    def truthy_seq(self, eng, st, v):
        return None

    def attribute(self, eng, st, base, attr):
        if is_z3(base) and base.sort() == Ref and attr == 'astype':
            return BoundV(base, attr)
        return None

    def equal(self, eng, st, a, b):
        if is_z3(a) and is_z3(b) and a.sort() == Ref and b.sort() == Ref:
            return a == b
        return None

    def call(self, eng, st, f, args, kwargs, n, stars):
        line = n.lineno
        if isinstance(f, BoundV) and isinstance(f.obj, OpaqueV) and f.obj.tag == 'module:dtypes':
            if f.name == 'dtype':
                return [(st, dtype_of(args[0]))]
            if f.name == 'result_type' and stars and not args:
                # the common dtype of the leaves, computed from their dtypes
                seq = eng.to_seq(st, stars[0])
                k = z3.Int('k!rt')
                eng.oblige(st, 'III', 'common-dtype-is-computed-from-the-dtype-of-every-leaf',
                           z3.And(seq.len == self.n, z3.ForAll([k], z3.Implies(z3.And(0 <= k, k < self.n), seq.at(k) == dtype_of(leaf_at(k))))), line)
                return [(st, result_type_all(z3.Const('leaves_object', Ref)))]
        if isinstance(f, BoundV) and isinstance(f.obj, OpaqueV) and f.obj.tag == 'module:lax' and f.name == 'convert_element_type':
            return [(st, cast(args[0], args[1]))]
        if isinstance(f, OpaqueV) and f.tag == 'class:HashablePartial':
            return [(st, StructV('partial', (('fn', args[0]), ('args', TupV(tuple(args[1:]))))))]
        if isinstance(f, BuiltinV) and f.name == 'any':
            seq = eng.to_seq(st, args[0])
            i = z3.Int('i!any')
            return [(st, z3.Exists([i], z3.And(0 <= i, i < seq.len, eng.truth(st, seq.at(i)))))]
        if isinstance(f, BoundV) and isinstance(f.obj, OpaqueV) and f.obj.tag == self.array_module:
            if f.name == 'zeros':
                return [(st, StructV('zeros', (('n', eng.as_int(args[0])),)))]
            if f.name == 'result_type':
                if stars:
                    return [(st, result_type_all(z3.Const('leaves_object', Ref)))]
                return [(st, dtype_of(args[0]))]
            if f.name == 'size':
                return [(st, size_of(args[0]))]
            if f.name == 'shape':
                return [(st, shape_of(args[0]))]
            if f.name == 'ravel':
                eng.oblige(st, 'III', 'ravel-in-the-default-row-major-order', z3.BoolVal(not kwargs and len(args) == 1), line)
                return [(st, raveled_of(args[0]))]
            if f.name == 'concatenate':
                return [(st, StructV('concat', (('parts', eng.to_seq(st, args[0])),)))]
        if isinstance(f, BoundV) and is_z3(f.obj) and f.name == 'astype':
            return [(st, cast(f.obj, args[0]))]
        if isinstance(f, BoundV) and isinstance(f.obj, OpaqueV) and f.obj.tag == 'module:itertools' and f.name == 'accumulate':
            seq = eng.to_seq(st, args[0])
            return [(st, SeqV(seq.len, lambda k, seq=seq: StructV('acc', (('k', k), ('seq', seq)))))]
        if isinstance(f, BoundV) and isinstance(f.obj, OpaqueV) and f.obj.tag == 'module:functools' and f.name == 'partial':
            return [(st, StructV('partial', (('fn', args[0]), ('args', TupV(tuple(args[1:]))))))]
        if isinstance(f, BuiltinV) and f.name == 'tuple':
            return [(st, eng.to_seq(st, args[0]))]
        if isinstance(f, BuiltinV) and f.name == 'all':
            seq = eng.to_seq(st, args[0])
            i = z3.Int('i!all')
            s2 = st.clone()
            return [(st, z3.ForAll([i], z3.Implies(z3.And(0 <= i, i < seq.len), eng.truth(st, seq.at(i)))))]
        return None

    def truth_hook(self, eng, st, v):
        return None

    def raises(self, eng, st, entry):
        return {}

    def post(self, eng, st, entry, ret):
        if not (isinstance(ret, TupV) and len(ret.items) == 2):
            return [('returns-a-pair', z3.BoolVal(False))]
        flat, unravel = ret.items
        k = z3.Int('k!rl')
        rng = z3.And(0 <= k, k < self.n)
        if isinstance(flat, StructV) and flat.kind == 'zeros':
            return [('no-leaves:empty-array-and-the-empty-unravel', z3.And(self.n == 0, flat.get('n') == 0,
                                                                           z3.BoolVal(isinstance(unravel, OpaqueV) and unravel.tag == 'fn:_unravel_empty')))]
        out = [('with-leaves:flat-is-a-concatenation', z3.BoolVal(isinstance(flat, StructV) and flat.kind == 'concat')),
               ('with-leaves:at-least-one', self.n >= 1)]
        if not (isinstance(flat, StructV) and flat.kind == 'concat' and isinstance(unravel, StructV) and unravel.kind == 'partial'):
            return out + [('unravel-is-a-partial-of-an-unravel-function', z3.BoolVal(False))]
        parts = flat.get('parts')
        fn, pargs = unravel.get('fn'), unravel.get('args').items
        single = isinstance(fn, OpaqueV) and fn.tag == 'fn:_unravel_leaves_single_dtype'
        mixed = isinstance(fn, OpaqueV) and fn.tag == 'fn:_unravel_leaves'
        out.append(('unravel-is-a-partial-of-an-unravel-function', z3.BoolVal((single and len(pargs) == 2) or (mixed and len(pargs) == 4))))
        if not (single or mixed):
            return out
        to = result_type_all(z3.Const('leaves_object', Ref))
        piece = raveled_of(leaf_at(k)) if single else self.mixed_piece(k, to)
        out += [('one-piece-per-leaf', parts.len == self.n),
                ('piece-k-is-leaf-k-raveled-in-row-major-order' + ('' if single else '-cast-to-the-common-dtype'), z3.Implies(rng, parts.at(k) == piece))]
        indices, shapes = eng.to_seq(st, pargs[0]), eng.to_seq(st, pargs[1])
        el = indices.at(k)
        ok_idx = isinstance(el, StructV) and el.kind == 'acc'
        out.append(('indices-are-the-accumulated-sizes', z3.BoolVal(ok_idx)))
        if ok_idx:
            sizes = el.get('seq')
            out += [('indices-accumulate-one-size-per-leaf', z3.And(indices.len == self.n, sizes.len == self.n)),
                    ('size-k-is-the-size-of-leaf-k', z3.Implies(rng, eng.as_int(sizes.at(k)) == size_of(leaf_at(k))))]
        out += [('one-shape-per-leaf', shapes.len == self.n),
                ('shape-k-is-the-shape-of-leaf-k', z3.Implies(rng, shapes.at(k) == shape_of(leaf_at(k))))]
        if mixed:
            fd = eng.to_seq(st, pargs[2])
            out += [('from_dtypes-k-is-the-dtype-of-leaf-k', z3.And(fd.len == self.n, z3.Implies(rng, fd.at(k) == dtype_of(leaf_at(k))))),
                    ('to_dtype-is-the-common-dtype', pargs[3] == to)]
        else:
            out.append(('single-dtype-path-only-when-all-dtypes-are-the-common-one', z3.Implies(rng, dtype_of(leaf_at(k)) == to)))
        return out


@pycontract
class RavelLeavesJax(RavelLeavesNumpy):
    """_ravel_leaves(leaves), jax: as the numpy version with jnp / jax.dtypes / lax: the common dtype is computed from the dtype of
    every leaf, a leaf is converted to it (lax.convert_element_type) and then raveled, the unravel closure is a HashablePartial."""
    module = 'optree/integration/jax.py'
    extra_modules = ('jnp', 'dtypes', 'lax')
    array_module = 'module:jnp'

    def mixed_piece(self, k, to):
        return raveled_of(cast(leaf_at(k), to))            # jnp.ravel(lax.convert_element_type(leaf, to_dtype))


# ======================================================================================================================
# C03: the reductions are the corresponding folds over tree_leaves / tree_iter of the same tree under the caller's options

leaves_obj = z3.Function('tree_leaves_of', Ref, Ref, Bool, Str, Ref)      # the list tree_leaves(tree, options) returns
iter_obj = z3.Function('tree_iter_of', Ref, Ref, Bool, Str, Ref)


class FoldLike(MapVocabulary):
    """result = <builtin>(leaves-of-tree-under-the-caller's-options, extras forwarded unchanged)."""
    builtin = ''
    source = 'leaves'            # 'leaves' (tree_leaves) | 'iter' (tree_iter)
    extras = ()                  # names of the parameters forwarded to the builtin
    missing_param = None         # parameter that may be the MISSING sentinel (then it is not passed on)

    def setup(self, eng, st, fn):
        super().setup(eng, st, fn)
        self.entry = st.clone()

    def global_name(self, eng, st, name):
        if name.endswith('__MISSING') or name == 'MISSING':
            return z3.Const('MISSING_SENTINEL', Ref)
        if name in ('sum', 'max', 'min', 'all', 'any', 'isinstance', 'str', 'bytes', 'bytearray'):
            return BuiltinV(name)
        return super().global_name(eng, st, name)

    def isinstance(self, eng, st, obj, cls):
        tag = repr(cls)
        return z3.Function('isinstance_' + ''.join(ch for ch in tag if ch.isalnum())[:40], Ref, Bool)(obj) if is_z3(obj) else None

    def call(self, eng, st, f, args, kwargs, n, stars):
        line = n.lineno
        if isinstance(f, FuncV) and f.name in ('tree_leaves', 'tree_iter'):
            is_leaf, nil, ns = kwargs.get('is_leaf', PYNONE), kwargs.get('none_is_leaf', z3.BoolVal(False)), kwargs.get('namespace', EMPTY)
            e_is_leaf, e_nil, e_ns = self.opts(self.entry)
            eng.oblige(st, 'III', f'{f.name}:forwards-is_leaf', eng.identical(is_leaf, e_is_leaf), line)
            eng.oblige(st, 'III', f'{f.name}:forwards-none_is_leaf', eng.truth(st, nil) == eng.truth(st, e_nil), line)
            eng.oblige(st, 'III', f'{f.name}:forwards-namespace', ns_str(ns) == ns_str(e_ns), line)
            fn = leaves_obj if f.name == 'tree_leaves' else iter_obj
            s_exc = st.clone()
            eng.throw(s_exc, 'FlattenError', line)
            return [(st, fn(args[0], is_leaf if is_z3(is_leaf) else PYNONE, eng.truth(st, nil), ns_str(ns)))]
        is_fold = (isinstance(f, BuiltinV) and f.name in ('sum', 'max', 'min', 'all', 'any')) or \
                  (isinstance(f, BoundV) and isinstance(f.obj, OpaqueV) and f.obj.tag == 'module:functools' and f.name == 'reduce')
        if is_fold:
            nm = f.name
            s_exc = st.clone()
            eng.throw(s_exc, 'FoldError', line)
            return [(st, StructV('fold', (('op', nm), ('args', TupV(tuple(args))), ('kwargs', TupV(tuple(sorted(kwargs.items(), key=lambda kv: kv[0])))))))]
        return super().call(eng, st, f, args, kwargs, n, stars)

    def raises(self, eng, st, entry):
        return {'FlattenError': None, 'FoldError': None}

    def src(self, eng, st, entry):
        is_leaf, nil, ns = self.opts(entry)
        fn = leaves_obj if self.source == 'leaves' else iter_obj
        return fn(entry.env.get('tree'), is_leaf, eng.truth(st, nil), ns_str(ns))

    def post(self, eng, st, entry, ret):
        if not (isinstance(ret, StructV) and ret.kind == 'fold'):
            return [('result-is-the-fold', z3.BoolVal(False))]
        args = ret.get('args').items
        kw = dict(ret.get('kwargs').items)
        out = [('uses-the-documented-builtin', z3.BoolVal(ret.get('op') == self.builtin))]
        pos_leaves = 1 if self.builtin == 'reduce' else 0
        out.append(('folds-the-leaves-of-the-tree-under-the-callers-options',
                    z3.BoolVal(len(args) > pos_leaves) if len(args) <= pos_leaves else eng.identical(args[pos_leaves], self.src(eng, st, entry))))
        if self.builtin == 'reduce':
            out.append(('reduces-with-the-given-function', eng.identical(args[0], entry.env.get('func'))))
        given = list(args[pos_leaves + 1:]) + list(kw.values())
        names = list(self.extras)
        miss = z3.Const('MISSING_SENTINEL', Ref)
        for nm in names:
            v = entry.env.get(nm)
            passed = kw.get(nm) if nm in kw else (args[pos_leaves + 1 + names.index(nm)] if nm not in ('key', 'default') and len(args) > pos_leaves + 1 + names.index(nm) else None)
            if nm == self.missing_param:
                out.append((f'{nm}-is-passed-on-exactly-when-given',
                            z3.BoolVal(passed is not None) == (v != miss) if is_z3(v) else z3.BoolVal(True)))
                if passed is not None:
                    out.append((f'{nm}-is-forwarded-unchanged', eng.identical(passed, v)))
            else:
                out.append((f'{nm}-is-forwarded-unchanged', z3.BoolVal(passed is not None) if passed is None else eng.identical(passed, v)))
        return out


def _mk_fold(name, builtin, source='leaves', extras=(), missing=None):
    cls = type('Fold_' + name, (FoldLike,), {'function': name, 'builtin': builtin, 'source': source, 'extras': extras,
                                             'missing_param': missing})
    return pycontract(cls)


_mk_fold('tree_reduce', 'reduce', extras=('initial',), missing='initial')
_mk_fold('tree_max', 'max', extras=('default', 'key'), missing='default')
_mk_fold('tree_min', 'min', extras=('default', 'key'), missing='default')
_mk_fold('tree_all', 'all', source='iter')
_mk_fold('tree_any', 'any', source='iter')


# ======================================================================================================================
# C18: ops.tree_flatten_one_level - the Python twin of one flatten step of the engine

reg_get = z3.Function('register_pytree_node_get', Ref, Str, Ref)          # register_pytree_node.get(cls, namespace=ns) (or None)
user_pred = z3.Function('is_leaf_predicate_says', Ref, Ref, Bool)
flatten_result = z3.Function('handler_flatten_result', Ref, Ref, Ref)      # handler.flatten_func(tree) as a tuple object
h_attr = lambda nm: z3.Function('handler_' + nm, Ref, Ref)


@pycontract
class TreeFlattenOneLevel(PyContract):
    """tree_flatten_one_level(tree, is_leaf, none_is_leaf, namespace): ValueError exactly when the tree is a leaf by the rules
    of the engine's step (None with none_is_leaf, the predicate says so, or no handler registered for the EXACT type in the
    caller's namespace); RuntimeError exactly when the handler's flatten result is not a 2- or 3-tuple or entries and children
    differ in number; otherwise children / metadata / entries (range(len(children)) when absent) of that result and
    unflatten_func / path_entry_type / kind of that handler, type = type(tree)."""
    module = 'optree/ops.py'
    function = 'tree_flatten_one_level'

    def param(self, eng, st, name):
        return z3.Const(name, Bool) if name == 'none_is_leaf' else z3.Const(name, Ref)

    def global_name(self, eng, st, name):
        if name == 'type':
            return BuiltinV('type')
        if name == 'register_pytree_node':
            return OpaqueV('register_pytree_node')
        if name == 'FlattenOneLevelOutputEx':
            return OpaqueV('class:FlattenOneLevelOutputEx')
        return None

    def attribute(self, eng, st, base, attr):
        if is_z3(base) and base.sort() == Ref and attr in ('flatten_func', 'unflatten_func', 'path_entry_type', 'kind'):
            return h_attr(attr)(base) if attr != 'flatten_func' else BoundV(base, 'flatten_func')
        return None

    def to_seq(self, eng, st, v):
        if is_z3(v) and v.sort() == Ref:
            st.facts.append(tup_len(v) >= 0)
            return SeqV(tup_len(v), lambda i, v=v: ref_at(v, i))
        return None

    def call(self, eng, st, f, args, kwargs, n, stars):
        line = n.lineno
        if isinstance(f, BuiltinV) and f.name == 'type' and len(args) == 1:
            return [(st, py_type_of(args[0]))]
        if is_z3(f) and f.sort() == Ref:                      # the is_leaf predicate
            s_exc = st.clone()
            eng.throw(s_exc, 'CallbackError', line)
            return [(st, user_pred(f, args[0]))]
        if isinstance(f, BoundV) and isinstance(f.obj, OpaqueV) and f.obj.tag == 'register_pytree_node' and f.name == 'get':
            eng.oblige(st, 'III', 'looks-up-the-exact-type-of-the-tree', args[0] == py_type_of(z3.Const('tree', Ref)), line)
            eng.oblige(st, 'III', 'looks-up-in-the-callers-namespace', ns_str(kwargs.get('namespace', EMPTY)) == ns_str(z3.Const('namespace', Ref)), line)
            return [(st, reg_get(args[0], ns_str(kwargs.get('namespace', EMPTY))))]
        if isinstance(f, BoundV) and f.name == 'flatten_func' and is_z3(f.obj):
            eng.oblige(st, 'III', 'flattens-the-tree-itself', args[0] == z3.Const('tree', Ref), line)
            s_exc = st.clone()
            eng.throw(s_exc, 'CallbackError', line)
            return [(st, flatten_result(f.obj, args[0]))]
        if isinstance(f, BuiltinV) and f.name in ('tuple', 'list') and args:
            return [(st, eng.to_seq(st, args[0]))]
        if isinstance(f, OpaqueV) and f.tag == 'class:FlattenOneLevelOutputEx':
            return [(st, StructV('output', tuple(sorted(kwargs.items()))))]
        return None

    def H(self):
        return reg_get(py_type_of(z3.Const('tree', Ref)), ns_str(z3.Const('namespace', Ref)))

    def is_leaf_case(self, eng, st):
        tree, pred = z3.Const('tree', Ref), z3.Const('is_leaf', Ref)
        nil = z3.Const('none_is_leaf', Bool)
        return z3.Or(z3.And(tree == PYNONE, nil), z3.And(pred != PYNONE, user_pred(pred, tree)), self.H() == PYNONE)

    def raises(self, eng, st, entry):
        fl = flatten_result(self.H(), z3.Const('tree', Ref))
        n = tup_len(fl)
        ent = ref_at(fl, 2)
        nch = tup_len(ref_at(fl, 0))
        nent = z3.If(z3.And(n == 3, ent != PYNONE), tup_len(ent), nch)
        return {'ValueError': self.is_leaf_case(eng, st),
                'RuntimeError': z3.Or(z3.And(n != 2, n != 3), nch != nent),
                'CallbackError': None}

    def post(self, eng, st, entry, ret):
        tree = z3.Const('tree', Ref)
        fl = flatten_result(self.H(), tree)
        n = tup_len(fl)
        out = [('no-error-implies-a-registered-non-leaf', z3.Not(self.is_leaf_case(eng, st))),
               ('no-error-implies-a-2-or-3-tuple', z3.Or(n == 2, n == 3))]
        if not (isinstance(ret, StructV) and ret.kind == 'output'):
            return out + [('returns-the-output-record', z3.BoolVal(False))]
        d = dict(ret.fields)
        ch, ent = eng.to_seq(st, d['children']), eng.to_seq(st, d['entries'])
        k = z3.Int('k!ol')
        given = z3.And(n == 3, ref_at(fl, 2) != PYNONE)
        out += [('children-are-the-first-component', z3.And(ch.len == tup_len(ref_at(fl, 0)), z3.Implies(z3.And(0 <= k, k < ch.len), ch.at(k) == ref_at(ref_at(fl, 0), k)))),
                ('metadata-is-the-second-component', d['metadata'] == ref_at(fl, 1)),
                ('one-entry-per-child', ent.len == ch.len),
                ('entries-are-the-third-component-when-given-else-the-child-indices',
                 (z3.And(z3.Not(given), z3.Implies(z3.And(0 <= k, k < ent.len), ent.at(k) == k)) if z3.is_int(ent.at(k))
                  else z3.And(given, z3.Implies(z3.And(0 <= k, k < ent.len), ent.at(k) == ref_at(ref_at(fl, 2), k))))
                 if is_z3(ent.at(k)) else z3.BoolVal(False)),
                ('unflatten_func-of-the-handler', d['unflatten_func'] == h_attr('unflatten_func')(self.H())),
                ('type-is-the-exact-type-of-the-tree', d.get('type') == py_type_of(tree) if 'type' in d else z3.BoolVal(False)),
                ('path_entry_type-of-the-handler', d.get('path_entry_type') == h_attr('path_entry_type')(self.H()) if 'path_entry_type' in d else z3.BoolVal(False)),
                ('kind-of-the-handler', d.get('kind') == h_attr('kind')(self.H()) if 'kind' in d else z3.BoolVal(False))]
        return out


# ======================================================================================================================
# C19: optree/functools.py - the pytree protocol of optree.functools.partial and the call shim

part_attr = {a: z3.Function('attr_' + a, Ref, Ref) for a in ('args', 'keywords', 'func', 'partial_func')}
call_result = z3.Function('result_of_the_call', Ref, Ref)


def same_obj(eng, a, b):
    """`a is b` for engine values: decided by the solver for object references, syntactically for engine-level values."""
    if is_z3(a) and is_z3(b):
        return eng.identical(a, b)
    return z3.BoolVal(a is b)


class PartialBase(PyContract):
    module = 'optree/functools.py'

    def setup(self, eng, st, fn):
        super().setup(eng, st, fn)
        st.ghost['calls'] = ()

    def attribute(self, eng, st, base, attr):
        if is_z3(base) and base.sort() == Ref and attr in part_attr:
            return part_attr[attr](base)
        return None

    def call(self, eng, st, f, args, kwargs, n, stars):
        if is_z3(f) and f.sort() == Ref:
            # calling an object (the wrapped callable / the class): recorded with its exact argument structure
            st.ghost['calls'] = st.ghost['calls'] + ((f, tuple(args), tuple(stars), dict(kwargs)),)
            s_exc = st.clone()
            eng.throw(s_exc, 'Exception', n.lineno, 'from the called object')
            return [(st, call_result(f))]
        return None

    def raises(self, eng, st, entry):
        return {'Exception': None}


@pycontract
class ShimCall(PartialBase):
    """_HashablePartialShim.__call__(self, *args, **kwargs) is exactly self.partial_func(*args, **kwargs): one call, of the
    wrapped functools.partial, with the caller's positional arguments and keyword mapping and nothing else - so the
    precedence between the inner partial's keywords and the caller's is the one functools.partial itself implements."""
    function = '_HashablePartialShim.__call__'

    def setup(self, eng, st, fn):
        super().setup(eng, st, fn)
        self.args = SeqV(z3.Int('number_of_args'), lambda i: z3.Function('arg_at', Int, Ref)(i))
        self.kwargs = z3.Const('kwargs', Ref)
        st.env.vars['args'] = self.args
        st.env.vars['kwargs'] = self.kwargs

    def post(self, eng, st, entry, ret):
        me = entry.env.get('self')
        calls = st.ghost['calls']
        out = [('exactly-one-call', z3.BoolVal(len(calls) == 1))]
        if len(calls) != 1:
            return out
        f, plain, stars, kw = calls[0]
        return out + [('calls-the-wrapped-partial', f == part_attr['partial_func'](me)),
                      ('no-extra-positional-arguments', z3.BoolVal(len(plain) == 0)),
                      ('passes-exactly-the-callers-positional-arguments', z3.BoolVal(len(stars) == 1 and stars[0] is self.args)),
                      ('passes-exactly-the-callers-keyword-mapping-and-no-other-keyword',
                       z3.BoolVal(set(kw) == {'**'}) if set(kw) != {'**'} else same_obj(eng, kw['**'], self.kwargs)),
                      ('returns-the-result-of-that-call', same_obj(eng, ret, call_result(f)))]


@pycontract
class PartialFlatten(PartialBase):
    """partial.tree_flatten(self) == ((self.args, self.keywords), self.func, ('args', 'keywords'))."""
    function = 'partial.tree_flatten'

    def post(self, eng, st, entry, ret):
        me = entry.env.get('self')
        ok = isinstance(ret, TupV) and len(ret.items) == 3 and isinstance(ret.items[0], TupV) and len(ret.items[0].items) == 2 \
            and isinstance(ret.items[2], TupV) and len(ret.items[2].items) == 2
        out = [('returns-(children, metadata, entries)-of-the-documented-shape', z3.BoolVal(ok)),
               ('calls-nothing', z3.BoolVal(len(st.ghost['calls']) == 0))]
        if not ok:
            return out
        ch, md, en = ret.items
        lit = lambda v: z3.Const('strlit_' + str(abs(hash(v)) % 10**8), Str)      # the engine's constant for a string literal
        names_ok = all(is_z3(x) and x.eq(lit(v)) for x, v in zip(en.items, ('args', 'keywords')))
        return out + [('children-are-(args, keywords)-in-this-order', z3.And(same_obj(eng, ch.items[0], part_attr['args'](me)),
                                                                            same_obj(eng, ch.items[1], part_attr['keywords'](me)))),
                      ('metadata-is-the-wrapped-callable', same_obj(eng, md, part_attr['func'](me))),
                      ('entries-name-the-attributes-in-the-same-order', z3.BoolVal(names_ok))]


@pycontract
class PartialUnflatten(PartialBase):
    """partial.tree_unflatten(cls, metadata, (args, keywords)) is exactly cls(metadata, *args, **keywords)."""
    function = 'partial.tree_unflatten'

    def to_seq(self, eng, st, v):
        if is_z3(v) and v.sort() == Ref:
            item = z3.Function('py_item_of', Ref, Int, Ref)
            return SeqV(z3.Function('py_len_of', Ref, Int)(v), lambda i, v=v: item(v, i))
        return None

    def raises(self, eng, st, entry):
        return {'Exception': None, 'ValueError': None}

    def post(self, eng, st, entry, ret):
        cls, md, ch = entry.env.get('cls'), entry.env.get('metadata'), entry.env.get('children')
        item = z3.Function('py_item_of', Ref, Int, Ref)
        calls = st.ghost['calls']
        out = [('exactly-one-call', z3.BoolVal(len(calls) == 1))]
        if len(calls) != 1:
            return out
        f, plain, stars, kw = calls[0]
        shape = len(plain) == 1 and len(stars) == 1 and set(kw) == {'**'} and is_z3(stars[0]) and is_z3(kw.get('**'))
        out.append(('call-shape-is-cls(metadata, *args, **keywords)', z3.BoolVal(shape)))
        if not shape:
            return out
        return out + [('constructs-an-instance-of-the-given-class', same_obj(eng, f, cls)),
                      ('wrapped-callable-is-the-metadata', same_obj(eng, plain[0], md)),
                      ('positional-arguments-are-the-first-child', stars[0] == item(ch, 0)),
                      ('keywords-are-the-second-child', kw['**'] == item(ch, 1)),
                      ('returns-the-new-instance', same_obj(eng, ret, call_result(f)))]


# ======================================================================================================================
# C19: optree/dataclasses.py::dataclass - the class registered and returned is the one dataclasses.dataclass made

OPTION_NAMES = ('init', 'repr', 'eq', 'order', 'unsafe_hash', 'frozen', 'match_args', 'kw_only', 'slots', 'weakref_slot')
dc_made = z3.Function('class_made_by_dataclasses_dataclass', Ref, Ref)
dc_registered = z3.Function('result_of_register_dataclass', Ref, Ref)


def _lit(v):
    return z3.Const('strlit_' + str(abs(hash(v)) % 10**8), Str)


@pycontract
class DataclassDecorator(PyContract):
    """optree.dataclasses.dataclass(cls, <options>, namespace=N) with a class given:
         C' = dataclasses.dataclass(cls, **{every option: the caller's value})      (one call)
         returns _register_dataclass(C', namespace=N)                               (one call, of C' - not of cls)
       TypeError / ValueError for a non-class, a class decorated before, a non-string or empty namespace - before anything is
       made.  Without a class a decorator is returned (its body, a call of dataclass with the same options, is not executed
       here).  Holds for the interpreter the checks run under (Python >= 3.11: all ten options are forwarded)."""
    module = 'optree/dataclasses.py'
    function = 'dataclass'

    def setup(self, eng, st, fn):
        super().setup(eng, st, fn)
        st.ghost['calls'] = ()
        x, y = z3.Consts('x!lit y!lit', Str)
        lits = [_lit(o) for o in OPTION_NAMES]
        st.facts.append(z3.Distinct(*lits))               # different string literals are different strings

    def global_name(self, eng, st, name):
        if name == '_FIELDS':
            return z3.Const('FIELDS_marker', Str)
        if name == '__name__':
            return OpaqueV('__name__')
        if name in ('_register_dataclass',):
            return OpaqueV('fn:_register_dataclass')
        if name in ('str',):
            return OpaqueV('class:str')
        return super().global_name(eng, st, name)

    def attribute(self, eng, st, base, attr):
        if isinstance(base, OpaqueV) and base.tag == 'module:sys' and attr == 'version_info':
            return TupV((z3.IntVal(3), z3.IntVal(12)))
        if is_z3(base) and base.sort() == Ref:
            return z3.Function('attr_' + attr, Ref, Ref)(base)
        return None

    def isinstance(self, eng, st, obj, cls):
        if is_z3(obj):
            return z3.Function('isinstance_str', Ref, Bool)(obj)
        return None

    def call(self, eng, st, f, args, kwargs, n, stars):
        if isinstance(f, BoundV) and isinstance(f.obj, OpaqueV) and f.obj.tag == 'module:inspect' and f.name == 'isclass':
            return [(st, z3.Function('inspect_isclass', Ref, Bool)(args[0]))]
        if isinstance(f, BoundV) and isinstance(f.obj, OpaqueV) and f.obj.tag == 'module:dataclasses' and f.name == 'dataclass':
            st.ghost['calls'] = st.ghost['calls'] + (('dataclasses.dataclass', tuple(args), tuple(stars), dict(kwargs)),)
            s_exc = st.clone()
            eng.throw(s_exc, 'TypeError', n.lineno, 'from dataclasses.dataclass')
            return [(st, dc_made(args[0]) if args and is_z3(args[0]) else OpaqueV('made'))]
        if isinstance(f, OpaqueV) and f.tag == 'fn:_register_dataclass':
            st.ghost['calls'] = st.ghost['calls'] + (('_register_dataclass', tuple(args), tuple(stars), dict(kwargs)),)
            s_exc = st.clone()
            eng.throw(s_exc, 'TypeError', n.lineno, 'from _register_dataclass')
            s_exc2 = st.clone()
            eng.throw(s_exc2, 'ValueError', n.lineno, 'already registered')
            return [(st, dc_registered(args[0]) if args and is_z3(args[0]) else OpaqueV('registered'))]
        return None

    def raises(self, eng, st, entry):
        return {'TypeError': None, 'ValueError': None}

    def post(self, eng, st, entry, ret):
        cls, ns = entry.env.get('cls'), entry.env.get('namespace')
        calls = st.ghost['calls']
        if isinstance(ret, FuncV):
            return [('without-a-class-a-decorator-is-returned-and-nothing-is-made', z3.And(eng.identical(cls, PYNONE), z3.BoolVal(len(calls) == 0)))]
        out = [('a-class-was-given', z3.Not(eng.identical(cls, PYNONE))),
               ('exactly-one-dataclasses.dataclass-call-then-one-registration',
                z3.BoolVal([c[0] for c in calls] == ['dataclasses.dataclass', '_register_dataclass']))]
        if [c[0] for c in calls] != ['dataclasses.dataclass', '_register_dataclass']:
            return out
        (_, a1, s1, k1), (_, a2, s2, k2) = calls
        m = k1.get('**')
        shape = len(a1) == 1 and not s1 and set(k1) == {'**'} and isinstance(m, MapV) and len(a2) == 1 and not s2 and set(k2) == {'namespace'}
        out.append(('call-shapes-are-dataclasses.dataclass(cls, **options)-and-_register_dataclass(C, namespace=N)', z3.BoolVal(shape)))
        if not shape:
            return out
        out.append(('the-given-class-is-decorated', eng.identical(a1[0], cls)))
        for o in OPTION_NAMES:
            v = m.val(_lit(o))
            want = entry.env.get(o)
            out.append((f'option-{o}-is-forwarded-with-the-callers-value',
                        z3.And(m.has(_lit(o)), eng.identical(v, want) if is_z3(v) and is_z3(want) else z3.BoolVal(v is want))))
        out += [('the-class-made-by-dataclasses.dataclass-is-the-one-registered', same_obj(eng, a2[0], dc_made(cls))),
                ('registered-in-the-callers-namespace', same_obj(eng, k2['namespace'], ns)),
                ('returns-the-registered-class', same_obj(eng, ret, dc_registered(dc_made(cls))))]
        return out
