"""Sidecar contracts of Python functions (pyvc)."""
from __future__ import annotations

import z3

from ..cxx import model as M
from ..cxx.model import EMPTY, NULL, PYNONE, Bool, Int, Ref, Str, fresh
from .engine import (GLOBAL_NS, BoundV, BuiltinV, FuncV, OpaqueV, SeqV, StructV, TupV, PState, Unsupported, is_class, is_str,
                     is_z3, str_of, NORMAL)
from .reg import pycontract


class PyContract:
    module = ''
    function = ''

    def setup(self, eng, st, fn):
        a = fn.args
        for p in a.posonlyargs + a.args + a.kwonlyargs:
            st.env.vars[p.arg] = self.param(eng, st, p.arg)

    def param(self, eng, st, name):
        return z3.Const(name, Ref)

    def post(self, eng, st, entry, ret):
        return []

    def raises(self, eng, st, entry):
        return {}

    def post_exc(self, eng, st, entry, cls):
        return []

    def at_yield(self, eng, st, entry, finalbody):
        raise Unsupported('yield')

    # shared vocabulary -----------------------------------------------------------------------------------------
    def global_name(self, eng, st, name):
        if name.endswith('__GLOBAL_NAMESPACE') or name == 'GLOBAL_NAMESPACE':
            return GLOBAL_NS
        if name in ('_C', 'inspect', 'dataclasses', 'contextlib', 'sys'):
            return OpaqueV('module:' + name)
        if name.endswith('__REGISTRY_LOCK'):
            return OpaqueV('lock:__REGISTRY_LOCK')
        return None


def ns_str(v):
    """The std::string the binding receives for a Python namespace argument."""
    if is_z3(v) and v.sort() == Str:
        return v
    return str_of(v)


# ======================================================================================================================
# C13: registry.dict_insertion_ordered

OmegaSort = z3.ArraySort(Str, Bool)


@pycontract
class DictInsertionOrdered(PyContract):
    """Hoare triple  {Omega = O0}  with dict_insertion_ordered(mode, namespace=N): body  {Omega = O0}
    for every body that itself leaves Omega unchanged (or raises); inside the block Omega = O0[ns := bool(mode)].
    The engine primitives are used through their *proved* C++ contracts (IsDictInsertionOrdered / SetDictInsertionOrdered)."""
    module = 'optree/registry.py'
    function = 'dict_insertion_ordered'

    def setup(self, eng, st, fn):
        super().setup(eng, st, fn)
        st.ghost['omega'] = z3.Const('Omega0', OmegaSort)

    def ns_ok(self, ns):
        return z3.Or(ns == GLOBAL_NS, is_str(ns))

    def call(self, eng, st, f, args, kwargs, n, stars):
        if isinstance(f, BoundV) and isinstance(f.obj, OpaqueV) and f.obj.tag == 'module:_C':
            line = n.lineno
            if 'lock:__REGISTRY_LOCK' not in st.ghost['locks']:
                eng.oblige(st, 'IV', f'lockset:_C.{f.name}-under-__REGISTRY_LOCK', z3.BoolVal(False), line)
            om = st.ghost['omega']
            if f.name == 'is_dict_insertion_ordered':
                ns = ns_str(args[0])
                inherit = kwargs.get('inherit_global_namespace', args[1] if len(args) > 1 else z3.BoolVal(True))
                return [(st, z3.Or(z3.Select(om, ns), z3.And(eng.truth(st, inherit), z3.Select(om, EMPTY))))]
            if f.name == 'set_dict_insertion_ordered':
                mode, ns = eng.truth(st, args[0]), ns_str(args[1])
                st.ghost['omega'] = z3.Store(om, ns, mode)
                return [(st, PYNONE)]
        return None

    def effective_ns(self, entry):
        ns = entry.env.get('namespace')
        return z3.If(ns == GLOBAL_NS, EMPTY, str_of(ns))

    def raises(self, eng, st, entry):
        ns = entry.env.get('namespace')
        return {'TypeError': z3.Not(self.ns_ok(ns)),
                'ValueError': z3.And(is_str(ns), str_of(ns) == EMPTY)}

    def post_exc(self, eng, st, entry, cls):
        return [('mode-set-unchanged-when-the-arguments-are-rejected', st.ghost['omega'] == entry.ghost['omega'])]

    def at_yield(self, eng, st, entry, finalbody):
        o0, o1 = entry.ghost['omega'], st.ghost['omega']
        ns = self.effective_ns(entry)
        mode = eng.truth(st, entry.env.get('mode'))
        line = finalbody[0].lineno
        eng.oblige(st, 'III', 'enter:arguments-were-valid', z3.And(self.ns_ok(entry.env.get('namespace')),
                                                                   z3.Not(z3.And(is_str(entry.env.get('namespace')),
                                                                                 str_of(entry.env.get('namespace')) == EMPTY))), line)
        eng.oblige(st, 'III', 'enter:only-the-given-namespace-is-switched', o1 == z3.Store(o0, ns, mode), line)
        eng.oblige(st, 'III', 'enter:prev-is-the-non-inherited-mode-of-the-namespace',
                   eng.truth(st, st.env.get('prev')) == z3.Select(o0, ns), line)
        eng.oblige(st, 'IV', 'enter:lock-released-before-the-body-runs', z3.BoolVal(st.ghost['locks'] == ()), line)
        # the with-body: any code that preserves Omega (induction hypothesis for nested blocks) - it may also raise;
        # in both cases the generator's finally block runs from a state with Omega = o1
        for kind in ('normal-exit', 'exception-exit'):
            s = st.clone()
            for s2, o in eng.ex_block(finalbody, s):
                eng.oblige(s2, 'III', f'exit:{kind}:mode-set-restored-exactly', s2.ghost['omega'] == o0, line)
                eng.oblige(s2, 'IV', f'exit:{kind}:lock-released', z3.BoolVal(s2.ghost['locks'] == ()), line)


# ======================================================================================================================
# C12: registry.register_pytree_node / unregister_pytree_node  (engine call, then mirror update, under one lock)

class RegistryPy(PyContract):
    module = 'optree/registry.py'

    def setup(self, eng, st, fn):
        super().setup(eng, st, fn)
        # engine view E and Python mirror M of the custom registrations: global (by type) and named (namespace, type)
        for nm in ('Eg', 'Mg'):
            st.ghost[nm] = z3.Const(nm + '0', z3.ArraySort(Ref, Bool))
        for nm in ('En', 'Mn'):
            st.ghost[nm] = z3.Const(nm + '0', z3.ArraySort(Str, z3.ArraySort(Ref, Bool)))
        c, s = z3.Const('c!mi', Ref), z3.Const('s!mi', Str)
        # MI: the mirror holds exactly the custom registrations of the engine
        st.facts += [z3.ForAll([c], z3.Select(st.ghost['Eg'], c) == z3.Select(st.ghost['Mg'], c)),
                     z3.ForAll([s, c], z3.Select(z3.Select(st.ghost['En'], s), c) == z3.Select(z3.Select(st.ghost['Mn'], s), c))]

    def call(self, eng, st, f, args, kwargs, n, stars):
        line = n.lineno
        if isinstance(f, BoundV) and isinstance(f.obj, OpaqueV):
            mod = f.obj.tag
            if mod == 'module:inspect' and f.name == 'isclass':
                return [(st, is_class(args[0]))]
            if mod == 'module:_C' and f.name in ('register_node', 'unregister_node'):
                if 'lock:__REGISTRY_LOCK' not in st.ghost['locks']:
                    eng.oblige(st, 'IV', f'lockset:_C.{f.name}-under-__REGISTRY_LOCK', z3.BoolVal(False), line)
                cls = args[0]
                ns = ns_str(args[-1])
                # proved C++ contract (Register / Unregister): either raises with the registry unchanged, or changes
                # exactly the key (ns, cls) in the engine
                s_exc = st.clone()
                eng.throw(s_exc, 'EngineError', line, 'from _C.' + f.name)
                Eg, En = st.ghost['Eg'], st.ghost['En']
                present = z3.If(ns == EMPTY, z3.Select(Eg, cls), z3.Select(z3.Select(En, ns), cls))
                if f.name == 'register_node':
                    eng.assume(st, z3.Not(present))
                    st.ghost['Eg'] = z3.If(ns == EMPTY, z3.Store(Eg, cls, True), Eg)
                    st.ghost['En'] = z3.If(ns != EMPTY, z3.Store(En, ns, z3.Store(z3.Select(En, ns), cls, True)), En)
                else:
                    eng.assume(st, present)
                    st.ghost['Eg'] = z3.If(ns == EMPTY, z3.Store(Eg, cls, False), Eg)
                    st.ghost['En'] = z3.If(ns != EMPTY, z3.Store(En, ns, z3.Store(z3.Select(En, ns), cls, False)), En)
                return [(st, PYNONE)]
        if isinstance(f, BuiltinV) and f.name == 'issubclass':
            return [(st, z3.Function('py_issubclass', Ref, Ref, Bool)(args[0], args[1]))]
        if isinstance(f, OpaqueV) and f.tag == 'class:PyTreeNodeRegistryEntry':
            return [(st, StructV('entry', (('type', args[0]), ('namespace', kwargs.get('namespace')))))]
        if isinstance(f, BoundV) and isinstance(f.obj, OpaqueV) and f.obj.tag == 'mirror' and f.name == 'pop':
            key = args[0]
            has = self.mirror_has(st, key)
            s_bad = st.clone()
            eng.assume(s_bad, z3.Not(has))
            if eng.feasible(s_bad):
                eng.throw(s_bad, 'KeyError', line)
            eng.assume(st, has)
            self.mirror_set(st, key, False)
            return [(st, z3.Const('popped_entry', Ref))]
        return None

    def global_name(self, eng, st, name):
        if name == '_NODETYPE_REGISTRY':
            return OpaqueV('mirror')
        if name == 'PyTreeNodeRegistryEntry':
            return OpaqueV('class:PyTreeNodeRegistryEntry')
        if name == 'PyTreeEntry':
            return z3.Const('class_PyTreeEntry', Ref)
        return super().global_name(eng, st, name)

    def key_parts(self, key):
        if isinstance(key, TupV):
            return ns_str(key.items[0]), key.items[1]
        return None, key

    def mirror_has(self, st, key):
        ns, cls = self.key_parts(key)
        if ns is None:
            return z3.Select(st.ghost['Mg'], cls)
        return z3.Select(z3.Select(st.ghost['Mn'], ns), cls)

    def mirror_set(self, st, key, val):
        ns, cls = self.key_parts(key)
        if ns is None:
            st.ghost['Mg'] = z3.Store(st.ghost['Mg'], cls, val)
        else:
            Mn = st.ghost['Mn']
            st.ghost['Mn'] = z3.Store(Mn, ns, z3.Store(z3.Select(Mn, ns), cls, val))

    def store_subscript(self, eng, st, base, key, v):
        if isinstance(base, OpaqueV) and base.tag == 'mirror':
            if 'lock:__REGISTRY_LOCK' not in st.ghost['locks']:
                eng.oblige(st, 'IV', 'lockset:_NODETYPE_REGISTRY-written-under-__REGISTRY_LOCK', z3.BoolVal(False), 0)
            self.mirror_set(st, key, True)
            return True
        return False

    def MI(self, st):
        c, s = z3.Const('c!mi2', Ref), z3.Const('s!mi2', Str)
        return [('mirror-invariant:global', z3.ForAll([c], z3.Select(st.ghost['Eg'], c) == z3.Select(st.ghost['Mg'], c))),
                ('mirror-invariant:named', z3.ForAll([s, c], z3.Select(z3.Select(st.ghost['En'], s), c) ==
                                                     z3.Select(z3.Select(st.ghost['Mn'], s), c)))]

    def unchanged(self, st, entry):
        return z3.And(*[st.ghost[k] == entry.ghost[k] for k in ('Eg', 'En', 'Mg', 'Mn')])

    def ns_valid(self, ns):
        return z3.And(z3.Or(ns == GLOBAL_NS, is_str(ns)), z3.Not(z3.And(is_str(ns), str_of(ns) == EMPTY)))

    def eff(self, entry):
        ns = entry.env.get('namespace')
        return z3.If(ns == GLOBAL_NS, EMPTY, str_of(ns))

    def only_key_changed(self, st, entry, now_present):
        ns, cls = self.eff(entry), entry.env.get('cls')
        c, s = z3.Const('c!f', Ref), z3.Const('s!f', Str)
        out = []
        for g, nmap in (('Eg', 'En'), ('Mg', 'Mn')):
            G0, G1, N0, N1 = entry.ghost[g], st.ghost[g], entry.ghost[nmap], st.ghost[nmap]
            out.append((f'{g}:only-the-key-changes', z3.ForAll([c], z3.Implies(z3.Or(c != cls, ns != EMPTY),
                                                                               z3.Select(G1, c) == z3.Select(G0, c)))))
            out.append((f'{nmap}:only-the-key-changes', z3.ForAll([s, c], z3.Implies(
                z3.Or(c != cls, s != ns, ns == EMPTY), z3.Select(z3.Select(N1, s), c) == z3.Select(z3.Select(N0, s), c)))))
            out.append((f'{g}/{nmap}:key-now-{"present" if now_present else "absent"}',
                        z3.If(ns == EMPTY, z3.Select(G1, cls), z3.Select(z3.Select(N1, ns), cls)) == now_present))
        return out


@pycontract
class RegisterPytreeNode(RegistryPy):
    function = 'register_pytree_node'

    def post(self, eng, st, entry, ret):
        return [('returns-the-class', ret == entry.env.get('cls')),
                ('arguments-were-valid', z3.And(is_class(entry.env.get('cls')), self.ns_valid(entry.env.get('namespace')))),
                ('lock-released', z3.BoolVal(st.ghost['locks'] == ()))] + self.MI(st) + self.only_key_changed(st, entry, True)

    def raises(self, eng, st, entry):
        ns = entry.env.get('namespace')
        return {'TypeError': None, 'ValueError': z3.And(is_str(ns), str_of(ns) == EMPTY), 'EngineError': None}

    def post_exc(self, eng, st, entry, cls):
        return [('atomic:engine-and-mirror-unchanged-when-the-call-raises', self.unchanged(st, entry)),
                ('lock-released', z3.BoolVal(st.ghost['locks'] == ()))]


@pycontract
class UnregisterPytreeNode(RegistryPy):
    function = 'unregister_pytree_node'

    def post(self, eng, st, entry, ret):
        return [('lock-released', z3.BoolVal(st.ghost['locks'] == ()))] + self.MI(st) + self.only_key_changed(st, entry, False)

    def raises(self, eng, st, entry):
        ns = entry.env.get('namespace')
        # KeyError from the mirror is NOT allowed: with the mirror invariant the key exists whenever the engine call succeeded
        return {'TypeError': None, 'ValueError': z3.And(is_str(ns), str_of(ns) == EMPTY), 'EngineError': None}

    def post_exc(self, eng, st, entry, cls):
        return [('atomic:engine-and-mirror-unchanged-when-the-call-raises', self.unchanged(st, entry)),
                ('lock-released', z3.BoolVal(st.ghost['locks'] == ()))]


# ======================================================================================================================
# C10: ops.tree_transpose  (index law for all m, n >= 1)

spec_num_leaves = z3.Function('spec_num_leaves', Ref, Int)
spec_nil = z3.Function('spec_none_is_leaf', Ref, Bool)
spec_ns = z3.Function('spec_namespace', Ref, Str)
leaf_of = z3.Function('leaf_of_flatten', Ref, Int, Ref)      # k-th leaf of flatten(tree, options) (ghost)


class TreespecVocabulary(PyContract):
    """Treespec objects are opaque references with the observers proved on the C++ side (getters, Compose, Unflatten)."""

    def attribute(self, eng, st, base, attr):
        if is_z3(base) and base.sort() == Ref:
            if attr == 'num_leaves':
                st.facts.append(spec_num_leaves(base) >= 0)
                return spec_num_leaves(base)
            if attr == 'none_is_leaf':
                return spec_nil(base)
            if attr == 'namespace':
                return spec_ns(base)
            if attr in ('unflatten', 'compose', 'flatten_up_to'):
                return BoundV(base, attr)
        return None

    def unflatten(self, eng, st, spec, seq, line):
        """Contract of PyTreeSpec.unflatten (proved: UnflattenImpl): pulls the leaves in order; ValueError unless their number
        is num_leaves; result = the tree of `spec` over exactly these leaves (kept symbolic as a structured value)."""
        seq = eng.to_seq(st, seq)
        if seq.lazy is not None:
            kind, f, seqs = seq.lazy
            if not (isinstance(f, BoundV) and f.name == 'unflatten' and len(seqs) == 1):
                raise Unsupported('lazy map of an unknown callable')
            inner_spec, src = f.obj, seqs[0]
            # every element is produced by inner_spec.unflatten(src[j]): its own leaf-count requirement
            j = fresh('j_elem', Int)
            s_chk = st.clone()
            eng.assume(s_chk, z3.And(0 <= j, j < src.len))
            col = eng.to_seq(s_chk, src.at(j))
            eng.oblige(s_chk, 'III', 'map-unflatten:every-column-has-num_leaves-items', col.len == spec_num_leaves(inner_spec), line)
            seq = SeqV(src.len, lambda i, src=src, inner_spec=inner_spec: StructV(
                'unflat', (('spec', inner_spec), ('seq', eng.to_seq(st, src.at(i))))))
        ok = seq.len == spec_num_leaves(spec)
        s_bad = st.clone()
        eng.assume(s_bad, z3.Not(ok))
        if eng.feasible(s_bad):
            eng.throw(s_bad, 'ValueError', line, 'leaf count')
        eng.assume(st, ok)
        return StructV('unflat', (('spec', spec), ('seq', seq)))


@pycontract
class TreeTranspose(TreespecVocabulary):
    module = 'optree/ops.py'
    function = 'tree_transpose'

    def setup(self, eng, st, fn):
        super().setup(eng, st, fn)
        self.flat_len = z3.Int('num_leaves_of_tree')
        st.facts.append(self.flat_len >= 0)

    def call(self, eng, st, f, args, kwargs, n, stars):
        line = n.lineno
        if isinstance(f, FuncV) and f.name == 'tree_flatten':
            tree = args[0]
            eng.oblige(st, 'III', 'flatten:uses-the-outer-none_is_leaf',
                       eng.truth(st, kwargs['none_is_leaf']) == spec_nil(st.env.get('outer_treespec')), line)
            o, i = st.env.get('outer_treespec'), st.env.get('inner_treespec')
            eng.oblige(st, 'III', 'flatten:uses-the-outer-namespace-or-else-the-inner',
                       kwargs['namespace'] == z3.If(spec_ns(o) != EMPTY, spec_ns(o), spec_ns(i)), line)
            eng.oblige(st, 'III', 'flatten:forwards-is_leaf', eng.identical(kwargs['is_leaf'], st.env.get('is_leaf')), line)
            t = z3.Const('treespec_of_tree', Ref)
            st.facts.append(spec_num_leaves(t) == self.flat_len)
            leaves = SeqV(self.flat_len, lambda k, tree=tree: leaf_of(tree, k))
            s_exc = st.clone()
            eng.throw(s_exc, 'FlattenError', line)
            return [(st, TupV((leaves, t)))]
        if isinstance(f, BoundV) and f.name == 'compose':
            a, b = f.obj, args[0]
            eng.oblige(st, 'III', 'compose:operands-are-compatible',
                       z3.And(spec_nil(a) == spec_nil(b), z3.Not(z3.And(spec_ns(a) != EMPTY, spec_ns(b) != EMPTY,
                                                                        spec_ns(a) != spec_ns(b)))), line)
            return [(st, z3.Const('composed_treespec', Ref))]
        if isinstance(f, BoundV) and f.name == 'unflatten':
            return [(st, self.unflatten(eng, st, f.obj, args[0], line))]
        return None

    def sizes(self, entry):
        o, i = entry.env.get('outer_treespec'), entry.env.get('inner_treespec')
        return o, i, spec_num_leaves(o), spec_num_leaves(i)

    def raises(self, eng, st, entry):
        o, i, m, n = self.sizes(entry)
        conflict = z3.And(spec_ns(o) != EMPTY, spec_ns(i) != EMPTY, spec_ns(o) != spec_ns(i))
        return {'ValueError': z3.Or(spec_nil(o) != spec_nil(i), m == 0, n == 0, conflict),
                'TypeError': self.flat_len != m * n,
                'FlattenError': None}

    def post(self, eng, st, entry, ret):
        o, i, m, n = self.sizes(entry)
        tree = entry.env.get('tree')
        out = [('no-error-implies-valid-arguments', z3.And(spec_nil(o) == spec_nil(i), m > 0, n > 0, self.flat_len == m * n))]
        if not (isinstance(ret, StructV) and ret.kind == 'unflat'):
            return out + [('result-is-inner-unflatten', z3.BoolVal(False))]
        out.append(('result-has-the-inner-structure', ret.get('spec') == i))
        seq = ret.get('seq')
        out.append(('one-subtree-per-inner-leaf', seq.len == n))
        j, k = z3.Ints('j_inner i_outer')
        elem = seq.at(j)
        if not (isinstance(elem, StructV) and elem.kind == 'unflat'):
            return out + [('subtrees-are-outer-unflatten', z3.BoolVal(False))]
        rng = z3.And(0 <= j, j < n, 0 <= k, k < m)
        out.append(('each-subtree-has-the-outer-structure', z3.Implies(rng, elem.get('spec') == o)))
        col = elem.get('seq')
        out.append(('each-subtree-has-one-value-per-outer-leaf', z3.Implies(rng, col.len == m)))
        out.append(('value-at-(inner j, outer i)-is-input-value-at-(outer i, inner j)',
                    z3.Implies(rng, col.at(k) == leaf_of(tree, k * n + j))))
        return out
