REGISTRY = {}


def pycontract(cls):
    inst = cls()
    REGISTRY[f'{inst.module}::{inst.function}'] = inst
    return cls
