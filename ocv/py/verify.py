"""Run pyvc on functions under contract and discharge the VCs (shared solver pipeline with cxxvc)."""
from __future__ import annotations

import importlib
import sys
import time
import traceback
from pathlib import Path

from .. import build as B
from ..cxx.solver import discharge
from ..result import Obligation
from .engine import PyEngine, Unsupported

DROPS = ['docstrings, type annotations, f-string contents (opaque; only the exception class of a raise is kept)',
         'reference semantics of Python objects: opaque objects are an uninterpreted sort with pure attribute reads']
ASSUMPTIONS = ['A-PY: builtins and module globals are not rebound; len/isinstance/is/bool/zip/map/range/slicing have their '
               'standard semantics; integers are unbounded; a generator-based context manager runs its finally block on '
               'every exit of the with-body',
               'the pybind11 bindings of optree._C forward to the C++ functions named in their contracts (optree.cpp is '
               'not under contract)']

from .reg import REGISTRY, pycontract  # noqa: F401


def load():
    importlib.import_module('ocv.py.contracts')
    return REGISTRY


def verify(names: list[str], budgets=(8, 30, 60), verbose=False):
    contracts = load()
    vcs, errors, covers = [], [], {}
    t0 = time.time()
    engines = {}
    for q in names:
        c = contracts.get(q)
        if c is None:
            errors.append(Obligation(id=f'{q}::contract-exists', function=q, cls='X', status='error', detail='no contract'))
            continue
        path = B.REPO / c.module
        if not path.exists():
            errors.append(Obligation(id=f'{q}::file-exists', function=q, cls='X', status='unknown', detail='source file missing'))
            continue
        if c.module not in engines:
            engines[c.module] = PyEngine(c.module, path.read_text(), contracts)
        eng = engines[c.module]
        if c.function not in eng.funcs:
            errors.append(Obligation(id=f'{q}::function-exists', function=q, cls='X', status='unknown',
                                     detail='the function named by the sidecar no longer exists (contract drift)'))
            continue
        eng.vcs = []
        try:
            normal = eng.run(c.function, c)
            covers[q] = normal
            vcs += eng.vcs
        except Unsupported as e:
            errors.append(Obligation(id=f'{q}::extraction', function=q, cls='X', status='unknown',
                                     detail=f'construct outside the modelled Python subset: {e}'))
            if verbose:
                traceback.print_exc()
        except Exception:
            errors.append(Obligation(id=f'{q}::engine', function=q, cls='X', status='error', detail=traceback.format_exc()[-1500:]))
            if verbose:
                traceback.print_exc()
    obs = discharge(vcs, budgets)
    from ..cxx.verify import _canaries
    obs += _canaries(vcs)
    for q, normal in covers.items():
        obs.append(Obligation(id=f'{q}::COVER::normal-exit-reachable', function=q, cls='COVER',
                              status='discharged' if normal > 0 else 'failed', backend='symex',
                              detail=f'{normal} feasible normal exit path(s)'))
    obs += errors
    return obs, {'drops': DROPS, 'assumptions': ASSUMPTIONS, 'vc_generation_s': round(time.time() - t0, 2)}


if __name__ == '__main__':
    names = [a for a in sys.argv[1:] if not a.startswith('--')] or sorted(load())
    t = time.time()
    obs, info = verify(names, verbose=True)
    for o in obs:
        flag = {'discharged': 'ok  ', 'failed': 'FAIL', 'unknown': '??? ', 'error': 'ERR '}[o.status]
        print(f'{flag} {o.id}  [{o.backend} {o.time_s}s] {o.source} {o.detail[:300] if o.status != "discharged" else ""}')
    print(f'{time.time() - t:.1f}s discharged', sum(o.status == 'discharged' for o in obs), '/', len(obs))
