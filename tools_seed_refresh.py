#!/usr/bin/env python3
"""usage: tools_seed_refresh.py <seeded/Cxx-SEEDk>     Re-evaluates which obligations / bounded clauses detect a stored seeded
change with the checks as they are now (scratch copy of /repo + patch, OCV_REPO) and rewrites meta.json['detection']."""
import json, os, re, shutil, subprocess, sys, tempfile
from pathlib import Path

VERIF = Path(__file__).resolve().parent
d = Path(sys.argv[1]).resolve()
meta = json.loads((d / 'meta.json').read_text())
pid = meta['property']
tmp = Path(tempfile.mkdtemp(prefix='seedrefresh-'))
for sub in ('src', 'include', 'optree'):
    shutil.copytree('/repo/' + sub, tmp / sub)
for so in (tmp / 'optree').glob('*.so'):
    so.unlink()
subprocess.run(['patch', '-p1', '-s', '-i', str(d / 'patch.diff')], cwd=tmp, check=True)
r = subprocess.run(['./check', pid, 'quick'], cwd=VERIF, env=dict(os.environ, OCV_REPO=str(tmp)), capture_output=True, text=True)
shutil.rmtree(tmp)
viol = [l for l in r.stdout.splitlines() if l.startswith('VIOLATION')]
names = sorted({re.sub(r'-[0-9a-f]{10}\.py.*$', '', l.split('replay=')[1].split('/')[-1]) for l in viol})
bnd = [x for x in names if re.match(r'^C\d\d-C\d\d\.', x)]
ded = [x for x in names if x not in bnd]
meta['detection'] = {
    'command': f'OCV_REPO=<scratch copy with the patch> ./check {pid} quick',
    'exit_code': r.returncode, 'violation_lines': len(viol),
    'failed_obligations (deductive)': ded, 'bounded_clauses': bnd,
    'no_failing_input_found_lines': sum(1 for l in viol if l.rstrip().endswith('no-failing-input-found')),
}
(d / 'meta.json').write_text(json.dumps(meta, indent=1) + '\n')
print(meta['id'], 'rc', r.returncode, 'deductive', len(ded), 'bounded', len(bnd))
