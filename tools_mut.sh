#!/bin/bash
# usage: tools_mut.sh <file-relative-to-repo> <python-expr old> <python-expr new> -- functions...
# copies /repo sources to /tmp/mut, applies one textual replacement, runs cxxvc on the given functions
set -e
F=$1; OLD=$2; NEW=$3; shift 3; shift
rm -rf /tmp/mut && mkdir -p /tmp/mut && cp -r /repo/src /repo/include /repo/optree /tmp/mut/ && rm -f /tmp/mut/optree/*.so
python3 - "$F" "$OLD" "$NEW" <<'PY'
import sys
f,old,new=sys.argv[1:4]
p='/tmp/mut/'+f; s=open(p).read()
assert s.count(old)>=1, 'pattern not found'
open(p,'w').write(s.replace(old,new,1))
PY
cd /verif && OCV_REPO=/tmp/mut .venv/bin/python -m ocv.cxx.verify "$@" 2>&1 | grep -v "^ok" | cut -c1-220
