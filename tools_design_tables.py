#!/usr/bin/env python3
"""Prints the markdown tables of DESIGN.md section 8 from the committed artefacts (evidence/*.json, seeded/*/meta.json)."""
import glob, json, re, sys
sys.path.insert(0, '.')
from ocv.props import table  # noqa: F401
from ocv.props._common import TABLE

print('| property | C++ functions under contract | Python functions under contract | obligations (quick run) | bounded monitors (evaluations) |')
print('|---|---|---|---|---|')
for pid in sorted(TABLE):
    t = TABLE[pid]
    ev = json.load(open(f'evidence/{pid}.json'))
    cov = ev['coverage']
    cxx = ', '.join(q.split('::')[-1] for q in t.get('cxx', [])) or '-'
    py = ', '.join(q.split('::')[-1] for q in t.get('py', [])) or '-'
    if t.get('fwd'):
        py += ' + option forwarding'
    b = ', '.join(f"{r['name']} ({r['evaluations']})" for r in cov['bounded'])
    print(f"| {pid} | {cxx} | {py} | {cov['discharged']}/{cov['obligations']} | {b} |")
print()
print('| seeded change | files | what it breaks (short) | failed obligations (deductive) | bounded clauses | no native input |')
print('|---|---|---|---|---|---|')
for d in sorted(glob.glob('seeded/C*-SEED*')):
    m = json.load(open(d + '/meta.json'))
    det = m['detection']
    short = lambda x: re.sub(r'^C\d\d-', '', x).replace('optree_PyTreeSpec_', '').replace('optree_PyTreeTypeRegistry_', '').replace('optree_', '')[:70]
    ded = '; '.join(short(x) for x in det['failed_obligations (deductive)'][:2]) or '-'
    bnd = '; '.join(short(x) for x in det['bounded_clauses'][:2]) or '-'
    br = (m.get('breaks') or '')[:120].replace('|', '/')
    print(f"| {m['id']} | {', '.join(f.split('/')[-1] for f in m['files_changed'])} | {br} | {ded} | {bnd} | {det['no_failing_input_found_lines']} |")
